// Package c16 simulates two owners of what should be unrelated storage: owner 0
// holds an object O, owner 1 holds C = O.Clone(). Each owner runs a seeded
// mutation program over its own object; the simulator interleaves the two
// programs step by step and after every step compares both objects with their
// owner's private model. The same scenario also runs as two unsynchronised
// goroutines (under the race detector in the -race worker), where any shared
// storage is a data race.
package c16

import (
	"bytes"
	"encoding/json"
	"fmt"
	"math"
	"sync"

	geom "github.com/twpayne/go-geom"

	"verif/sim/core"
	"verif/sim/mgeom"
	"verif/sim/prng"
)

// Mut is one mutation of an owner's object.
type Mut struct {
	K    string      `json:"k"` // ord end push reverse transform setcoords setsrid swap sameend | cidx cset | bset bsetcoords bextend
	I    int         `json:"i,omitempty"`
	J    int         `json:"j,omitempty"`
	V    mgeom.F     `json:"v,omitempty"`
	Part *mgeom.Geom `json:"part,omitempty"`
	C    mgeom.Coord `json:"c,omitempty"`
	C2   mgeom.Coord `json:"c2,omitempty"`
}

// Scenario is one closed C16 scenario.
type Scenario struct {
	Kind  string      `json:"kind"` // a geometry type name, "Coord" or "Bounds"
	G     *mgeom.Geom `json:"g,omitempty"`
	C     mgeom.Coord `json:"c,omitempty"`
	Prog  [2][]Mut    `json:"prog"`
	Order []int       `json:"order"` // whose step comes next (0/1); exhausted programs are skipped
	// Reserve > 0: Reserve(n) is called on the object before it is cloned, so
	// that empty and short objects carry spare capacity.
	Reserve int `json:"reserve,omitempty"`
	// Variant selects who the two owners are (geometry kinds only):
	//   0  the original O and O.Clone()
	//   1  C1 = O.Clone() and C1.Clone()            (clone of a clone)
	//   2  O.Clone() and O.Clone()                  (sibling clones)
	//   3  O.Clone() and X.Clone(), X unrelated      (clones made one after the other)
	Variant int         `json:"variant,omitempty"`
	X       *mgeom.Geom `json:"x,omitempty"`
	// BHow selects how a Bounds is brought into being before it is cloned:
	//   0  NewBounds(layout of G).Extend(G)
	//   1  G.Bounds()
	//   2  NewBounds(BL0).Extend(G), BL0 another layout (promotion on the way)
	//   3  NewBounds(layout of G).Set(BArgs...), BArgs for any number of dimensions
	//      (Set widens min/max beyond the layout when given more)
	//   4  the zero value &geom.Bounds{}
	//   5  NewBounds(layout of G).SetCoords(first half of BArgs, second half)
	// Shared, when set, is ONE part object that both owners push into their
	// objects (mutation "pushs"): Push copies, so the two objects and the part
	// stay independent of one another.
	Shared *mgeom.Geom `json:"shared,omitempty"`
	// Pre is applied to the object before anything is cloned: a clone is then
	// taken of an object with a history (moved end offsets, pushes, spare
	// capacity left by appends, a negative SRID, ...).
	Pre []Mut `json:"pre,omitempty"`
	// Storm > 0 (race phase, kinds Coord and Bounds): before anything else,
	// Storm goroutines clone the original StormN times each at the same time
	// (Clone only reads it), keep their clones, write a value of their own into
	// every one of them and then look at all of them again: clones handed out
	// to different callers must not share storage either.
	Storm  int `json:"storm,omitempty"`
	StormN int `json:"storm_n,omitempty"`
	// Quiet: nothing is observed between setting the owners up and the end of
	// the programs (observing an object may itself change hidden state).
	Quiet bool `json:"quiet,omitempty"`
	// OldWrite (variant 0 only): right after cloning the original's owner
	// writes ordinate I := V through the slice FlatCoords() returned BEFORE
	// the clone was made.
	OldWrite *Mut        `json:"old_write,omitempty"`
	BHow     int         `json:"bhow,omitempty"`
	BL0      int         `json:"bl0,omitempty"`
	BArgs    mgeom.Coord `json:"bargs,omitempty"`
}

type prop struct{}

func init() { core.Register(prop{}) }

func (prop) ID() string { return "C16" }

func (prop) Plan(tier string) []core.Phase {
	if tier == "thorough" {
		return []core.Phase{{Name: "race", Race: true, Runs: 8000000}, {Name: "seq", Runs: 150000000}}
	}
	return []core.Phase{{Name: "race", Race: true, Runs: 150000}, {Name: "seq", Runs: 3000000}}
}

func (prop) Describe() core.Description {
	return core.Description{
		Level:        "exploration",
		Rule:         "A scenario is an object of a cloneable type (Point, LineString, LinearRing, Polygon, MultiPoint, MultiLineString, MultiPolygon in XY/XYZ/XYM/XYZM/Layout(5), built through New*Flat, SetCoords or Push so that nil and empty slices both occur, optionally with Reserve()d spare capacity; Coord; Bounds), a choice of who the two owners are (original and clone, clone and clone-of-clone, two sibling clones, clones of two unrelated objects made one after the other), two mutation programs (write an ordinate through FlatCoords(), move or rewrite an end offset through Ends()/Endss(), Push, Reverse, TransformInPlace, SetCoords, SetSRID, Swap with a private third object; Coord.Set and index writes; Bounds.Set/SetCoords/Extend) and a seeded interleaving of the two owners. In 30% of the geometry runs the object has a history before it is cloned (1-6 mutations of the same kinds: moved end offsets, pushes that leave spare capacity, a negative SRID); in 25% nothing is observed between setting the owners up and the end of both programs; in 20% of the original-and-clone runs the original's owner writes through the slice FlatCoords() had returned before the clone was made. Phase 'seq' executes the interleaving sequentially and checks both objects against their private models after every step; phase 'race' also releases the two programs as unsynchronised goroutines in the -race binary. A run is non-trivial when both owners executed at least one in-place mutation.",
		StateMeasure: "distinct (kind, layout, emptiness pattern, mutation-kind sequence of both owners, interleaving) tuples",
		Assumptions: []string{
			"observation is raw: type, layout, stride, SRID, FlatCoords bits, Ends, Endss (a nil and an empty slice are the same value)",
			"the Go race detector decides sharing that a value comparison cannot see (a write of the value already there)",
		},
		RealComponents: []string{"go-geom root package: Clone of all cloneable types (derived.gen.go), FlatCoords/Ends/Endss, Push, Reverse, TransformInPlace, SetCoords, SetSRID, Swap, Coord.Set, Bounds.Set/SetCoords/Extend", "Go race detector"},
		StubComponents: []string{"the two owners (seeded mutation programs and their interleaving)"},
		FaultKinds:     []string{"mut:ord", "mut:end", "mut:sameend", "mut:push", "mut:reverse", "mut:transform", "mut:setcoords", "mut:setfrom", "mut:setsrid", "mut:swap", "mut:cidx", "mut:cset", "mut:bset", "mut:bsetcoords", "mut:bextend"},
		Probes:         []string{"probe:multipolygon-endss-write", "probe:empty-object", "probe:both-owners-mutated-in-place", "probe:clone-storm", "probe:setcoords-from-views-of-the-other-owner", "probe:owner1-first", "probe:alternating", "probe:reserved-capacity", "probe:variant-0", "probe:variant-1", "probe:variant-2", "probe:variant-3", "probe:bounds-dims!=layout-stride-or-promoted", "probe:cloned-after-a-history", "probe:nothing-observed-until-the-end", "probe:write-through-slice-from-before-clone", "probe:negative-srid", "probe:one-part-object-pushed-by-both-owners"},
	}
}

var cloneable = []string{mgeom.Pt, mgeom.LS, mgeom.LR, mgeom.Pg, mgeom.MPt, mgeom.MLS, mgeom.MPg}

func isGeomKind(k string) bool {
	for _, c := range cloneable {
		if c == k {
			return true
		}
	}
	return false
}

func (prop) Decode(raw []byte) (any, error) {
	var s Scenario
	d := json.NewDecoder(bytes.NewReader(raw))
	d.DisallowUnknownFields()
	if err := d.Decode(&s); err != nil {
		return nil, err
	}
	switch {
	case isGeomKind(s.Kind):
		if s.G == nil || s.G.T != s.Kind || s.G.L < 0 || s.G.L > 6 || (s.G.L == 0 && s.G.NumCoords() > 0) {
			return nil, fmt.Errorf("bad geometry")
		}
	case s.Kind == "Coord":
		if len(s.C) > 8 {
			return nil, fmt.Errorf("bad coord")
		}
	case s.Kind == "Bounds":
		if s.G == nil || !isGeomKind(s.G.T) || s.G.L < 1 || s.G.L > 4 {
			return nil, fmt.Errorf("bad bounds source")
		}
		if s.BHow < 0 || s.BHow > 5 || s.BL0 < 0 || s.BL0 > 4 || len(s.BArgs) > 12 || len(s.BArgs)%2 != 0 {
			return nil, fmt.Errorf("bad bounds construction")
		}
		if s.BHow == 5 && len(s.BArgs) != 2*mgeom.Stride(s.G.L) {
			return nil, fmt.Errorf("SetCoords needs two coordinates of the layout")
		}
		for _, v := range s.BArgs {
			if math.IsNaN(float64(v)) {
				return nil, fmt.Errorf("NaN in bounds construction")
			}
		}
	default:
		return nil, fmt.Errorf("bad kind %q", s.Kind)
	}
	if s.Storm < 0 || s.Storm > 8 || s.StormN < 0 || s.StormN > 400 || (s.Storm > 0 && isGeomKind(s.Kind)) {
		return nil, fmt.Errorf("bad clone storm")
	}
	for _, o := range s.Order {
		if o != 0 && o != 1 {
			return nil, fmt.Errorf("bad order")
		}
	}
	if s.Reserve < 0 || s.Reserve > 64 || s.Variant < 0 || s.Variant > 3 {
		return nil, fmt.Errorf("bad reserve/variant")
	}
	if s.Variant == 3 {
		if !isGeomKind(s.Kind) || s.X == nil || s.X.T != s.Kind || s.X.L != s.G.L {
			return nil, fmt.Errorf("variant 3 needs an unrelated object of the same kind and layout")
		}
	}
	if s.Variant != 0 && !isGeomKind(s.Kind) {
		return nil, fmt.Errorf("variants are for geometries")
	}
	if s.Shared != nil && (!isGeomKind(s.Kind) || partOf[s.Kind] == "" || s.Shared.T != partOf[s.Kind] || s.Shared.L != s.G.L) {
		return nil, fmt.Errorf("bad shared part")
	}
	if len(s.Pre) > 16 || (len(s.Pre) > 0 || s.Quiet || s.OldWrite != nil) && !isGeomKind(s.Kind) {
		return nil, fmt.Errorf("bad pre-history")
	}
	if s.OldWrite != nil && s.Variant != 0 {
		return nil, fmt.Errorf("old-slice write needs the original as an owner")
	}
	for w := 0; w < 3; w++ {
		prog := s.Pre
		if w < 2 {
			prog = s.Prog[w]
		}
		if len(prog) > 40 {
			return nil, fmt.Errorf("program too long")
		}
		for _, m := range prog {
			if m.Part != nil {
				if m.Part.L < 1 || m.Part.L > 6 || !isGeomKind(m.Part.T) {
					return nil, fmt.Errorf("bad part")
				}
			}
			for _, o := range append(append(mgeom.Coord{m.V}, m.C...), m.C2...) {
				if math.IsNaN(float64(o)) && s.Kind == "Bounds" {
					return nil, fmt.Errorf("NaN in bounds program")
				}
			}
		}
	}
	return &s, nil
}

// setCoordsFromViews calls dst.SetCoords with coordinates that are views of
// src's own array (what Coord(i), Point(i).FlatCoords() and the like hand out):
// slices of src.FlatCoords() whose capacity runs on to the end of that array.
func setCoordsFromViews(dst, src geom.T) error {
	flat := src.FlatCoords()
	st := src.Stride()
	view := func(from, to int) []geom.Coord {
		out := []geom.Coord{}
		for i := from; i+st <= to; i += st {
			out = append(out, geom.Coord(flat[i:i+st]))
		}
		return out
	}
	views2 := func(from int, ends []int) ([][]geom.Coord, int) {
		out := [][]geom.Coord{}
		for _, e := range ends {
			out = append(out, view(from, e))
			from = e
		}
		return out, from
	}
	var err error
	switch d := dst.(type) {
	case *geom.Point:
		if len(flat) == 0 {
			return nil
		}
		_, err = d.SetCoords(geom.Coord(flat))
	case *geom.LineString:
		_, err = d.SetCoords(view(0, len(flat)))
	case *geom.LinearRing:
		_, err = d.SetCoords(view(0, len(flat)))
	case *geom.MultiPoint:
		cs := []geom.Coord{}
		from := 0
		for _, e := range src.Ends() {
			if e == from {
				cs = append(cs, nil)
			} else {
				cs = append(cs, geom.Coord(flat[from:e]))
			}
			from = e
		}
		_, err = d.SetCoords(cs)
	case *geom.Polygon:
		css, _ := views2(0, src.Ends())
		_, err = d.SetCoords(css)
	case *geom.MultiLineString:
		css, _ := views2(0, src.Ends())
		_, err = d.SetCoords(css)
	case *geom.MultiPolygon:
		csss := [][][]geom.Coord{}
		from := 0
		for _, ends := range src.Endss() {
			var css [][]geom.Coord
			css, from = views2(from, ends)
			csss = append(csss, css)
		}
		_, err = d.SetCoords(csss)
	}
	return err
}

var partOf = map[string]string{mgeom.Pg: mgeom.LR, mgeom.MPt: mgeom.Pt, mgeom.MLS: mgeom.LS, mgeom.MPg: mgeom.Pg}

func (prop) Generate(r *prng.Rand, phase string) any {
	s := &Scenario{}
	cfg := mgeom.SwarmCfg(r, []int{1, 2, 3, 4, 5})
	cfg.PEmpty = []float64{0, 0.1, 0.3, 0.6}[r.Intn(4)]
	if cfg.MaxCoords > 6 && cfg.ExactCoords == 0 {
		cfg.MaxCoords = 6
	}
	if cfg.MaxParts > 4 && cfg.ExactParts == 0 {
		cfg.MaxParts = 4
	}
	l := []int{1, 2, 3, 4, 5}[r.Intn(5)]
	idxRange := 64 // indexes of mutations are taken modulo the object's size
	switch r.Pick(12, 1, 2) {
	case 0:
		s.Kind = cloneable[r.Intn(len(cloneable))]
		if r.Chance(0.3) {
			s.Kind = mgeom.MPg
		}
		s.G = cfg.Gen(r, s.Kind, l, 0)
		if r.Chance(0.0005) {
			// a very large object (a chunked or parallel copy would engage)
			s.Kind = mgeom.LS
			st := mgeom.Stride(l)
			nc := (1<<16)/st + []int{-1, 0, 1, 7}[r.Intn(4)]
			cs := make([]mgeom.Coord, nc)
			for i := range cs {
				c := make(mgeom.Coord, st)
				for j := range c {
					c[j] = mgeom.F(float64(i*st + j))
				}
				cs[i] = c
			}
			s.G = &mgeom.Geom{T: mgeom.LS, L: l, P: [][][]mgeom.Coord{{cs}}}
		}
		if r.Chance(0.002) && l <= 4 {
			// very many small parts (an allocator that works in slabs or pools
			// rows rolls over): end offsets beyond the 256th, 512th row
			s.Kind = []string{mgeom.MPg, mgeom.MPg, mgeom.Pg, mgeom.MLS, mgeom.MPt}[r.Intn(5)]
			k := []int{255, 256, 257, 258, 300, 513, 514, 771}[r.Intn(8)]
			s.G = cfg.ManyParts(r, s.Kind, l, k)
			idxRange = 1024
		}
		if r.Chance(0.02) {
			// an object without a layout (it can only be empty)
			l = 0
			s.G = (&mgeom.Geom{T: s.Kind, L: 0}).Norm()
		}
		s.G.S = mgeom.SRID(r)
		if r.Chance(0.35) {
			s.Reserve = r.Range(1, 12)
		}
		s.Variant = r.Pick(5, 2, 2, 2)
		if s.Variant == 3 {
			s.X = cfg.Gen(r, s.Kind, l, 0)
		}
	case 1:
		s.Kind = "Coord"
		n := r.Range(0, 5)
		for i := 0; i < n; i++ {
			s.C = append(s.C, mgeom.F(r.AnyFloatBits()))
		}
	case 2:
		s.Kind = "Bounds"
		cfg.FloatMode = 0
		if l > 4 {
			l = 4
		}
		s.G = cfg.Gen(r, cloneable[r.Intn(4)], l, 0)
		s.BHow = r.Pick(4, 2, 3, 4, 1, 2)
		switch s.BHow {
		case 2:
			s.BL0 = r.Intn(5)
		case 3:
			for j := 2 * r.Range(0, 6); j > 0; j-- {
				s.BArgs = append(s.BArgs, mgeom.F(r.SmallFloat()))
			}
		case 5:
			for j := 2 * mgeom.Stride(l); j > 0; j-- {
				s.BArgs = append(s.BArgs, mgeom.F(r.SmallFloat()))
			}
		}
	}
	var kinds []string
	switch s.Kind {
	case "Coord":
		kinds = []string{"cidx", "cidx", "cset"}
	case "Bounds":
		kinds = []string{"bset", "bextend", "bextend", "bsetcoords"}
		cfg.FloatMode = 0
	case mgeom.Pt:
		kinds = []string{"ord", "ord", "transform", "setcoords", "setsrid", "swap"}
	case mgeom.LS, mgeom.LR:
		kinds = []string{"ord", "ord", "reverse", "transform", "setcoords", "setsrid", "swap"}
	default:
		kinds = []string{"ord", "ord", "end", "end", "sameend", "push", "push", "reverse", "transform", "setcoords", "setsrid", "swap"}
	}
	if isGeomKind(s.Kind) && s.G.L == 0 {
		kinds = []string{"setsrid", "reverse", "transform", "ord", "sameend"}
	} else if isGeomKind(s.Kind) && phase != "race" {
		// SetCoords given coordinates borrowed from the other owner (views of
		// its array): afterwards the two are as independent as before. Only in
		// the phase where one owner acts at a time - the step reads the other
		// owner's object.
		kinds = append(kinds, "setfrom")
	}
	for w := 0; w < 2; w++ {
		n := r.Range(0, []int{1, 3, 6, 12}[r.Intn(4)])
		for i := 0; i < n; i++ {
			m := Mut{K: kinds[r.Intn(len(kinds))], I: r.Intn(idxRange), J: r.Intn(64)}
			if s.Kind == "Bounds" {
				m.V = mgeom.F(r.SmallFloat())
			} else {
				m.V = mgeom.F(r.AnyFloatBits())
			}
			switch m.K {
			case "push":
				m.Part = cfg.Gen(r, partOf[s.Kind], s.G.L, 0)
			case "setcoords", "swap":
				m.Part = cfg.Gen(r, s.Kind, s.G.L, 0)
				if s.Kind == mgeom.Pt && len(m.Part.Norm().P[0][0]) == 0 && m.K == "setcoords" {
					m.K = "ord"
					m.Part = nil
				}
			case "cset":
				for j := r.Range(0, 5); j > 0; j-- {
					m.C = append(m.C, mgeom.F(r.AnyFloatBits()))
				}
			case "bset", "bsetcoords":
				st := mgeom.Stride(s.G.L)
				for j := 0; j < st; j++ {
					m.C = append(m.C, mgeom.F(r.SmallFloat()))
					m.C2 = append(m.C2, mgeom.F(r.SmallFloat()))
				}
			case "bextend":
				m.Part = cfg.Gen(r, cloneable[r.Intn(3)], s.G.L, 0)
			}
			s.Prog[w] = append(s.Prog[w], m)
		}
	}
	for w := 0; w < 2; w++ {
		for i := range s.Prog[w] {
			if s.Prog[w][i].K == "setsrid" {
				s.Prog[w][i].I = []int{-1, 0, 1, 4326, 1 << 31, -32768}[r.Intn(6)]
			}
		}
	}
	if isGeomKind(s.Kind) && partOf[s.Kind] != "" && s.G.L != 0 && r.Chance(0.3) {
		// one part object pushed by both owners: the first push of each
		// program that has one (or a push put in front) uses it
		s.Shared = cfg.Gen(r, partOf[s.Kind], s.G.L, 0)
		if s.Shared.NumCoords() == 0 && r.Chance(0.8) {
			s.Shared = cfg.Gen(r, partOf[s.Kind], s.G.L, 0)
		}
		for w := 0; w < 2; w++ {
			done := false
			for i := range s.Prog[w] {
				if s.Prog[w][i].K == "push" {
					s.Prog[w][i] = Mut{K: "pushs"}
					done = true
					break
				}
			}
			if !done {
				s.Prog[w] = append([]Mut{{K: "pushs"}}, s.Prog[w]...)
			}
		}
	}
	if isGeomKind(s.Kind) {
		if r.Chance(0.1) {
			s.G.S = -1
		}
		if r.Chance(0.3) {
			// a history before the clone: taken from the same mutation kinds
			n := r.Range(1, 6)
			for i := 0; i < n; i++ {
				m := Mut{K: kinds[r.Intn(len(kinds))], I: r.Intn(idxRange), J: r.Intn(64), V: mgeom.F(r.AnyFloatBits())}
				switch m.K {
				case "push":
					m.Part = cfg.Gen(r, partOf[s.Kind], s.G.L, 0)
				case "setcoords", "swap":
					m.K = "ord"
				case "setsrid":
					m.I = []int{-1, 0, 4326, -7}[r.Intn(4)]
				}
				s.Pre = append(s.Pre, m)
			}
		}
		s.Quiet = r.Chance(0.25)
		if s.Variant == 0 && r.Chance(0.2) {
			s.OldWrite = &Mut{K: "ord", I: r.Intn(64), V: mgeom.F(r.AnyFloatBits())}
		}
	}
	total := len(s.Prog[0]) + len(s.Prog[1])
	switch r.Intn(4) {
	case 0: // all of owner 0 first
		for i := 0; i < total; i++ {
			s.Order = append(s.Order, 0)
		}
	case 1: // all of owner 1 first
		for i := 0; i < total; i++ {
			s.Order = append(s.Order, 1)
		}
	case 2:
		for i := 0; i < total; i++ {
			s.Order = append(s.Order, i%2)
		}
	default:
		for i := 0; i < total; i++ {
			s.Order = append(s.Order, r.Intn(2))
		}
	}
	if phase == "race" && (s.Kind == "Coord" || s.Kind == "Bounds") && r.Chance(0.5) {
		// several callers clone the same original at the same time, many times
		s.Storm = r.Range(2, 6)
		s.StormN = []int{1, 8, 70, 150, 300}[r.Intn(5)]
	}
	return s
}

// ---- raw model ----------------------------------------------------------------------------

type raw struct {
	T     string
	L, S  int
	Flat  []float64
	Ends  []int
	Endss [][]int
}

func rawOf(m *mgeom.Geom) *raw {
	m.Norm()
	f, e, ee := m.Flat()
	return &raw{T: m.T, L: m.L, S: m.S, Flat: f, Ends: e, Endss: ee}
}

func typeName(g geom.T) string {
	switch g.(type) {
	case *geom.Point:
		return mgeom.Pt
	case *geom.LineString:
		return mgeom.LS
	case *geom.LinearRing:
		return mgeom.LR
	case *geom.Polygon:
		return mgeom.Pg
	case *geom.MultiPoint:
		return mgeom.MPt
	case *geom.MultiLineString:
		return mgeom.MLS
	case *geom.MultiPolygon:
		return mgeom.MPg
	}
	return fmt.Sprintf("%T", g)
}

func observeRaw(g geom.T) *raw {
	r := &raw{T: typeName(g), L: int(g.Layout()), S: g.SRID()}
	r.Flat = append([]float64(nil), g.FlatCoords()...)
	r.Ends = append([]int(nil), g.Ends()...)
	for _, es := range g.Endss() {
		r.Endss = append(r.Endss, append([]int(nil), es...))
	}
	if g.Stride() != mgeom.Stride(r.L) {
		r.T += fmt.Sprintf("(stride %d)", g.Stride())
	}
	return r
}

func (a *raw) diff(b *raw) string {
	if a.T != b.T {
		return fmt.Sprintf("type %s != %s", a.T, b.T)
	}
	if a.L != b.L {
		return fmt.Sprintf("layout %d != %d", a.L, b.L)
	}
	if a.S != b.S {
		return fmt.Sprintf("srid %d != %d", a.S, b.S)
	}
	if len(a.Flat) != len(b.Flat) {
		return fmt.Sprintf("%d ordinates != %d", len(a.Flat), len(b.Flat))
	}
	for i := range a.Flat {
		if math.Float64bits(a.Flat[i]) != math.Float64bits(b.Flat[i]) {
			return fmt.Sprintf("ordinate %d: %s != %s", i, mgeom.FString(a.Flat[i]), mgeom.FString(b.Flat[i]))
		}
	}
	if len(a.Ends) != len(b.Ends) {
		return fmt.Sprintf("%d ends != %d", len(a.Ends), len(b.Ends))
	}
	for i := range a.Ends {
		if a.Ends[i] != b.Ends[i] {
			return fmt.Sprintf("ends[%d]: %d != %d", i, a.Ends[i], b.Ends[i])
		}
	}
	if len(a.Endss) != len(b.Endss) {
		return fmt.Sprintf("%d endss rows != %d", len(a.Endss), len(b.Endss))
	}
	for i := range a.Endss {
		if len(a.Endss[i]) != len(b.Endss[i]) {
			return fmt.Sprintf("endss[%d]: %d ends != %d", i, len(a.Endss[i]), len(b.Endss[i]))
		}
		for j := range a.Endss[i] {
			if a.Endss[i][j] != b.Endss[i][j] {
				return fmt.Sprintf("endss[%d][%d]: %d != %d", i, j, a.Endss[i][j], b.Endss[i][j])
			}
		}
	}
	return ""
}

// wellFormed: the end offsets partition the ordinates into whole coordinates,
// in order and to the end.
func (a *raw) wellFormed() bool {
	st := mgeom.Stride(a.L)
	if st == 0 || len(a.Flat)%st != 0 {
		return false
	}
	last := 0
	check := func(ends []int) bool {
		for _, e := range ends {
			if e < last || e > len(a.Flat) || e%st != 0 {
				return false
			}
			if a.T == mgeom.MPt && e-last != 0 && e-last != st {
				return false // a point is one coordinate or none
			}
			last = e
		}
		return true
	}
	switch {
	case len(a.Endss) > 0:
		for _, row := range a.Endss {
			if !check(row) {
				return false
			}
		}
		return last == len(a.Flat)
	case len(a.Ends) > 0:
		return check(a.Ends) && last == len(a.Flat)
	}
	// no end offsets: a point or line, or a multi-part geometry without parts
	return a.T == mgeom.Pt || a.T == mgeom.LS || a.T == mgeom.LR || len(a.Flat) == 0
}

func (a *raw) clone() *raw {
	c := &raw{T: a.T, L: a.L, S: a.S}
	c.Flat = append([]float64(nil), a.Flat...)
	c.Ends = append([]int(nil), a.Ends...)
	for _, es := range a.Endss {
		c.Endss = append(c.Endss, append([]int(nil), es...))
	}
	return c
}

func (a *raw) String() string {
	b, _ := json.Marshal(map[string]any{"t": a.T, "l": a.L, "srid": a.S, "flat": fstrs(a.Flat), "ends": a.Ends, "endss": a.Endss})
	return string(b)
}

func fstrs(f []float64) []string {
	out := make([]string, len(f))
	for i, v := range f {
		out[i] = mgeom.FString(v)
	}
	return out
}

// transformF is the coordinate function used by the transform mutation.
func transformF(delta float64) func(c []float64) {
	return func(c []float64) {
		for i := range c {
			c[i] = c[i]*2 + delta + float64(i)
		}
	}
}

// flatEnds lists all innermost end offsets in order.
func (a *raw) innerEnds() []int {
	switch mgeom.Level(a.T) {
	case 0, 1:
		return []int{len(a.Flat)}
	case 2:
		return a.Ends
	}
	var out []int
	for _, es := range a.Endss {
		out = append(out, es...)
	}
	return out
}

// endSlot addresses the i-th writable end offset (not the last one).
func (a *raw) endSlots() int {
	n := len(a.innerEnds())
	if mgeom.Level(a.T) < 2 || n == 0 {
		return 0
	}
	return n
}

func (a *raw) endAt(k int) (row, col int) {
	if mgeom.Level(a.T) == 2 {
		return -1, k
	}
	for i, es := range a.Endss {
		if k < len(es) {
			return i, k
		}
		k -= len(es)
	}
	return -1, -1
}

// apply applies a mutation to the model; it returns false when the mutation
// does not apply to the current state (then it is skipped on the object too).
func (a *raw) apply(m Mut, x **raw) bool {
	st := mgeom.Stride(a.L)
	switch m.K {
	case "ord":
		if len(a.Flat) == 0 {
			return false
		}
		a.Flat[m.I%len(a.Flat)] = float64(m.V)
	case "end", "sameend":
		n := a.endSlots()
		if n == 0 {
			return false
		}
		k := m.I % n
		ends := a.innerEnds()
		prev, next := 0, len(a.Flat)
		if k > 0 {
			prev = ends[k-1]
		}
		if k+1 < len(ends) {
			next = ends[k+1]
		}
		v := ends[k]
		if m.K == "end" {
			if k == len(ends)-1 || st == 0 {
				return false
			}
			steps := (next - prev) / st
			v = prev + (m.J%(steps+1))*st
		}
		row, col := a.endAt(k)
		if row < 0 {
			a.Ends[col] = v
		} else {
			a.Endss[row][col] = v
		}
	case "push", "pushs":
		part := m.Part
		if m.K == "pushs" {
			part = sharedModel
		}
		if part == nil {
			return false
		}
		p := rawOf(part.Clone())
		off := len(a.Flat)
		switch a.T {
		case mgeom.Pg, mgeom.MLS:
			a.Flat = append(a.Flat, p.Flat...)
			a.Ends = append(a.Ends, len(a.Flat))
		case mgeom.MPt:
			a.Flat = append(a.Flat, p.Flat...)
			a.Ends = append(a.Ends, len(a.Flat))
		case mgeom.MPg:
			a.Flat = append(a.Flat, p.Flat...)
			var es []int
			for _, e := range p.Ends {
				es = append(es, e+off)
			}
			a.Endss = append(a.Endss, es)
		default:
			return false
		}
	case "reverse":
		if mgeom.Level(a.T) == 0 || st == 0 {
			return false
		}
		off := 0
		for _, end := range a.innerEnds() {
			if end < off || end > len(a.Flat) {
				return false
			}
			for i, j := off, end-st; i < j; i, j = i+st, j-st {
				for k := 0; k < st; k++ {
					a.Flat[i+k], a.Flat[j+k] = a.Flat[j+k], a.Flat[i+k]
				}
			}
			off = end
		}
	case "transform":
		if st == 0 {
			return false
		}
		f := transformF(float64(m.I % 7))
		for i := 0; i+st <= len(a.Flat); i += st {
			f(a.Flat[i : i+st])
		}
	case "setcoords":
		p := rawOf(m.Part.Clone())
		a.Flat, a.Ends, a.Endss = p.Flat, p.Ends, p.Endss
	case "setsrid":
		a.S = m.I
	case "swap":
		if *x == nil {
			*x = rawOf(m.Part.Clone())
		}
		old := a.clone()
		*a = *(*x).clone()
		*x = old
	default:
		return false
	}
	return true
}

// owner is one owner's object with everything private to it.
type owner struct {
	g geom.T
	x geom.T // private third object for swap
}

// sharedModel / sharedPart: the one part object both owners push (set by
// Execute for the duration of a scenario; read-only while the owners run).
var (
	sharedModel *mgeom.Geom
	sharedPart  geom.T
)

func applyLib(o *owner, m Mut, model *raw) (panicked string) {
	return core.Guard(func() {
		g := o.g
		switch m.K {
		case "ord":
			fc := g.FlatCoords()
			fc[m.I%len(fc)] = float64(m.V)
		case "end", "sameend":
			// the model has already been updated: copy its value through the
			// exposed slice at the same slot
			n := model.endSlots()
			k := m.I % n
			row, col := model.endAt(k)
			if row < 0 {
				g.Ends()[col] = model.Ends[col]
			} else {
				g.Endss()[row][col] = model.Endss[row][col]
			}
		case "push", "pushs":
			var p geom.T
			var err error
			if m.K == "pushs" {
				p = sharedPart
			} else {
				p, err = mgeom.Build(m.Part.Clone())
				if err != nil {
					panic(err)
				}
			}
			switch g := g.(type) {
			case *geom.Polygon:
				err = g.Push(p.(*geom.LinearRing))
			case *geom.MultiPoint:
				err = g.Push(p.(*geom.Point))
			case *geom.MultiLineString:
				err = g.Push(p.(*geom.LineString))
			case *geom.MultiPolygon:
				err = g.Push(p.(*geom.Polygon))
			}
			if err != nil {
				panic(err)
			}
		case "reverse":
			g.(interface{ Reverse() }).Reverse()
		case "transform":
			f := transformF(float64(m.I % 7))
			geom.TransformInPlace(g, func(c geom.Coord) { f(c) })
		case "setcoords":
			if err := mgeom.SetCoords(g, m.Part.Clone()); err != nil {
				panic(err)
			}
		case "setsrid":
			if _, err := geom.SetSRID(g, m.I); err != nil {
				panic(err)
			}
		case "swap":
			if o.x == nil {
				x, err := mgeom.Build(m.Part.Clone())
				if err != nil {
					panic(err)
				}
				o.x = x
			}
			switch g := g.(type) {
			case *geom.Point:
				g.Swap(o.x.(*geom.Point))
			case *geom.LineString:
				g.Swap(o.x.(*geom.LineString))
			case *geom.LinearRing:
				g.Swap(o.x.(*geom.LinearRing))
			case *geom.Polygon:
				g.Swap(o.x.(*geom.Polygon))
			case *geom.MultiPoint:
				g.Swap(o.x.(*geom.MultiPoint))
			case *geom.MultiLineString:
				g.Swap(o.x.(*geom.MultiLineString))
			case *geom.MultiPolygon:
				g.Swap(o.x.(*geom.MultiPolygon))
			}
		}
	})
}

// nilness compares which of the exposed slices are nil (a nil and an empty
// slice hold the same coordinates but are not the same structure).
func nilness(a, b geom.T) string {
	if (a.FlatCoords() == nil) != (b.FlatCoords() == nil) {
		return fmt.Sprintf("FlatCoords() is nil in the source: %v, in the clone: %v", a.FlatCoords() == nil, b.FlatCoords() == nil)
	}
	if (a.Ends() == nil) != (b.Ends() == nil) {
		return fmt.Sprintf("Ends() is nil in the source: %v, in the clone: %v", a.Ends() == nil, b.Ends() == nil)
	}
	ea, eb := a.Endss(), b.Endss()
	if (ea == nil) != (eb == nil) {
		return fmt.Sprintf("Endss() is nil in the source: %v, in the clone: %v", ea == nil, eb == nil)
	}
	for i := range ea {
		if i < len(eb) && (ea[i] == nil) != (eb[i] == nil) {
			return fmt.Sprintf("Endss()[%d] is nil in the source: %v, in the clone: %v", i, ea[i] == nil, eb[i] == nil)
		}
	}
	return ""
}

func cloneGeom(g geom.T) geom.T {
	switch g := g.(type) {
	case *geom.Point:
		return g.Clone()
	case *geom.LineString:
		return g.Clone()
	case *geom.LinearRing:
		return g.Clone()
	case *geom.Polygon:
		return g.Clone()
	case *geom.MultiPoint:
		return g.Clone()
	case *geom.MultiLineString:
		return g.Clone()
	case *geom.MultiPolygon:
		return g.Clone()
	}
	return nil
}

var inPlace = map[string]bool{"ord": true, "end": true, "sameend": true, "reverse": true, "transform": true, "cidx": true, "cset": true, "bset": true, "bextend": true}

func (prop) Execute(scAny any, phase string, log *core.Log) core.Result {
	s := scAny.(*Scenario)
	switch s.Kind {
	case "Coord":
		return execCoord(s, phase, log)
	case "Bounds":
		return execBounds(s, phase, log)
	}
	var res core.Result
	m := s.G.Clone().Norm()
	g, err := mgeom.Build(m)
	if err != nil {
		res.Fail("build", "build:"+m.T, "building %s failed: %v", m, err)
		return res
	}
	if m.NumCoords() == 0 {
		res.Count("probe:empty-object", 1)
	}
	if s.Reserve > 0 {
		if rs, ok := g.(interface{ Reserve(int) }); ok {
			rs.Reserve(s.Reserve)
			res.Count("probe:reserved-capacity", 1)
		}
	}
	sharedModel, sharedPart = nil, nil
	if s.Shared != nil {
		sharedModel = s.Shared.Clone().Norm()
		sp, err := mgeom.Build(sharedModel.Clone())
		if err != nil {
			res.Fail("build", "build:"+sharedModel.T, "building the shared part %s failed: %v", sharedModel, err)
			return res
		}
		sharedPart = sp
		res.Count("probe:one-part-object-pushed-by-both-owners", 1)
	}
	// the object's history before it is cloned
	rawG := rawOf(m.Clone())
	if d := observeRaw(g).diff(rawG); d != "" {
		res.Fail("build-differs", "build-differs:"+s.Kind, "the built object differs from its model: %s", d)
		return res
	}
	if len(s.Pre) > 0 {
		pre := &owner{g: g}
		var px *raw
		n := 0
		for _, mut := range s.Pre {
			if mut.K == "end" && rawG.T == mgeom.MPt {
				// before the clone a MultiPoint keeps at most one coordinate
				// per point: the clone-time oracle looks at it through the
				// public accessors, which assume that
				continue
			}
			if !rawG.apply(mut, &px) {
				continue
			}
			if p := applyLib(pre, mut, rawG); p != "" {
				res.Fail("panic", "panic:pre:"+mut.K+":"+core.PanicSite(p), "mutation %s of the original before cloning panicked: %s", mut.K, p)
				return res
			}
			n++
		}
		if n > 0 {
			res.Count("probe:cloned-after-a-history", 1)
		}
		if d := observeRaw(g).diff(rawG); d != "" {
			res.Fail("own-mutation-wrong", "own-mutation-wrong:"+s.Kind+":pre", "after its history before cloning the original differs from its model: %s", d)
			return res
		}
	}
	if rawG.S < 0 {
		res.Count("probe:negative-srid", 1)
	}
	var oldSlice []float64
	if s.OldWrite != nil {
		oldSlice = g.FlatCoords()
	}
	if s.Quiet {
		res.Count("probe:nothing-observed-until-the-end", 1)
	}
	// clone is Clone plus the at-clone-time oracle: equal in type, layout,
	// SRID, structure and every bit
	clone := func(src geom.T, want *mgeom.Geom, what string) (geom.T, bool) {
		var c geom.T
		if p := core.Guard(func() { c = cloneGeom(src) }); p != "" {
			res.Fail("panic", "panic:clone:"+core.PanicSite(p), "Clone (%s) of %s panicked: %s", what, want, p)
			return nil, false
		}
		if s.Quiet {
			return c, true
		}
		oo, errO := mgeom.Observe(src)
		oc, errC := mgeom.Observe(c)
		if errO != nil || errC != nil {
			res.Fail("ill-formed", "ill-formed:clone:"+s.Kind, "%s: source %v, clone %v", what, errO, errC)
			return nil, false
		}
		if d := mgeom.Diff(oo, oc); d != "" {
			res.Fail("clone-differs", "clone-differs:"+s.Kind, "%s: the clone %s differs from its source %s: %s", what, oc, oo, d)
			return nil, false
		}
		if d := observeRaw(src).diff(observeRaw(c)); d != "" {
			res.Fail("clone-differs", "clone-differs:"+s.Kind, "%s: the clone differs from its source: %s", what, d)
			return nil, false
		}
		if d := nilness(src, c); d != "" {
			res.Fail("clone-differs", "clone-differs:"+s.Kind+":nil-vs-empty", "%s: %s", what, d)
			return nil, false
		}
		return c, true
	}
	// who the two owners are
	var o0, o1 geom.T
	r0, r1 := rawG, rawG
	m1 := m
	ok := true
	switch s.Variant {
	case 0:
		o0 = g
		o1, ok = clone(g, m, "O.Clone()")
	case 1:
		if o0, ok = clone(g, m, "C1 = O.Clone()"); ok {
			o1, ok = clone(o0, m, "C1.Clone()")
		}
	case 2:
		if o0, ok = clone(g, m, "first O.Clone()"); ok {
			o1, ok = clone(g, m, "second O.Clone()")
		}
	case 3:
		m1 = s.X.Clone().Norm()
		var x geom.T
		x, err = mgeom.Build(m1)
		if err != nil {
			res.Fail("build", "build:"+m1.T, "building %s failed: %v", m1, err)
			return res
		}
		r1 = rawOf(m1.Clone())
		if o0, ok = clone(g, m, "O.Clone()"); ok {
			o1, ok = clone(x, m1, "X.Clone() after O.Clone()")
		}
	}
	if !ok {
		return res
	}
	res.Count(fmt.Sprintf("probe:variant-%d", s.Variant), 1)
	// both owners must hold exactly their model now (a later Clone must not
	// have disturbed an earlier clone)
	if !s.Quiet {
		if d := observeRaw(o0).diff(r0); d != "" {
			res.Fail("mutation-visible-through-other", "clone-disturbed-earlier-clone:"+s.Kind, "variant %d: after both owners were set up, owner 0's object differs from its model: %s", s.Variant, d)
			return res
		}
		if d := observeRaw(o1).diff(r1); d != "" {
			res.Fail("clone-differs", "clone-differs:"+s.Kind, "variant %d: owner 1's object differs from its model: %s", s.Variant, d)
			return res
		}
	}
	g, c := o0, o1
	r0, r1 = r0.clone(), r1.clone()
	if s.OldWrite != nil && len(oldSlice) > 0 {
		// the original's owner still holds the slice FlatCoords() gave it
		// before the clone existed, and writes through it now
		i := s.OldWrite.I % len(oldSlice)
		oldSlice[i] = float64(s.OldWrite.V)
		r0.Flat[i] = float64(s.OldWrite.V)
		res.Count("probe:write-through-slice-from-before-clone", 1)
	}
	log.Addf("cloned %s layout %d: %d ordinates", s.Kind, m.L, len(r0.Flat))
	if phase == "race" {
		return raceGeom(s, g, c, r0, r1, log)
	}
	owners := [2]*owner{{g: g}, {g: c}}
	models := [2]*raw{r0, r1}
	xs := [2]*raw{nil, nil}
	pc := [2]int{}
	mutated := [2]bool{}
	if len(s.Order) > 0 && s.Order[0] == 1 {
		res.Count("probe:owner1-first", 1)
	}
	alt := 0
	last := -1
	step := func(w int) bool {
		mut := s.Prog[w][pc[w]]
		pc[w]++
		if mut.K == "setfrom" {
			o := 1 - w
			if models[w].T != models[o].T || models[w].L != models[o].L || models[w].L == 0 || !models[o].wellFormed() || (models[o].T == mgeom.Pt && len(models[o].Flat) == 0) {
				// (an owner whose end offsets were overwritten with arbitrary
				// values has no coordinates to lend)
				return true
			}
			var serr error
			if p := core.Guard(func() { serr = setCoordsFromViews(owners[w].g, owners[o].g) }); p != "" {
				res.Fail("panic", "panic:setfrom:"+core.PanicSite(p), "owner %d: SetCoords with coordinates that are views of owner %d's object panicked: %s", w, o, p)
				return false
			}
			if serr != nil {
				res.Fail("own-mutation-wrong", "own-mutation-wrong:"+s.Kind+":setfrom", "owner %d: SetCoords with the other owner's coordinates failed: %v", w, serr)
				return false
			}
			models[w].Flat = append([]float64(nil), models[o].Flat...)
			models[w].Ends = append([]int(nil), models[o].Ends...)
			models[w].Endss = nil
			for _, row := range models[o].Endss {
				models[w].Endss = append(models[w].Endss, append([]int(nil), row...))
			}
			res.Steps++
			res.Count("mut:setfrom", 1)
			res.Count("probe:setcoords-from-views-of-the-other-owner", 1)
			log.Addf("owner %d setfrom owner %d", w, o)
			if s.Quiet {
				return true
			}
			for k := 0; k < 2; k++ {
				if d := observeRaw(owners[k].g).diff(models[k]); d != "" {
					res.Fail("mutation-visible-through-other", "mutation-visible-through-other:"+s.Kind+":setfrom", "after owner %d took over owner %d's coordinates with SetCoords, owner %d's object differs from its private model: %s", w, o, k, d)
					return false
				}
			}
			return true
		}
		if !models[w].apply(mut, &xs[w]) {
			return true
		}
		res.Steps++
		res.Count("mut:"+mut.K, 1)
		if inPlace[mut.K] {
			mutated[w] = true
		}
		if mut.K == "end" && s.Kind == mgeom.MPg {
			res.Count("probe:multipolygon-endss-write", 1)
		}
		if last >= 0 && last != w {
			alt++
		}
		last = w
		if p := applyLib(owners[w], mut, models[w]); p != "" {
			res.Fail("panic", "panic:"+mut.K+":"+core.PanicSite(p), "owner %d mutation %s panicked: %s", w, mut.K, p)
			return false
		}
		log.Addf("owner %d %s", w, mut.K)
		if s.Quiet {
			return true
		}
		for k := 0; k < 2; k++ {
			if d := observeRaw(owners[k].g).diff(models[k]); d != "" {
				who := "its own"
				sig := "own-mutation-wrong"
				if k != w {
					who = "the OTHER owner's"
					sig = "mutation-visible-through-other"
				}
				res.Fail(sig, sig+":"+s.Kind+":"+mut.K, "after owner %d's %s (step %d of its program), owner %d's object differs from %s private model: %s\n  object %s\n  model  %s", w, mut.K, pc[w]-1, k, who, d, observeRaw(owners[k].g), models[k])
				return false
			}
		}
		return true
	}
	for _, w := range s.Order {
		if pc[w] >= len(s.Prog[w]) {
			w = 1 - w
		}
		if pc[w] >= len(s.Prog[w]) {
			break
		}
		if !step(w) {
			return res
		}
	}
	for w := 0; w < 2; w++ {
		for pc[w] < len(s.Prog[w]) {
			if !step(w) {
				return res
			}
		}
	}
	if s.Quiet {
		for k := 0; k < 2; k++ {
			if d := observeRaw(owners[k].g).diff(models[k]); d != "" {
				res.Fail("mutation-visible-through-other", "mutation-visible-through-other:"+s.Kind+":unobserved", "after both programs ran with nothing observed in between, owner %d's object differs from its private model: %s\n  object %s\n  model  %s", k, d, observeRaw(owners[k].g), models[k])
				return res
			}
		}
	}
	if sharedPart != nil {
		if d := observeRaw(sharedPart).diff(rawOf(sharedModel.Clone())); d != "" {
			res.Fail("mutation-visible-through-other", "mutation-visible-through-pushed-part:"+s.Kind, "the part object that both owners pushed has changed: %s", d)
			return res
		}
	}
	if alt >= 2 {
		res.Count("probe:alternating", 1)
	}
	// both objects, after everything that was done to them, seen through the
	// rest of the public API: like freshly built objects of their values
	for w := 0; w < 2 && (len(s.Prog[0])+len(s.Prog[1])+len(s.Pre))%3 == 0; w++ { // (one run in three: the comparison costs several encodes)
		if d := mgeom.TwinDiff(owners[w].g); d != "" {
			res.Fail("clone-differs", "views-differ:"+s.Kind, "owner %d's object at the end of the programs: %s", w, d)
			return res
		}
	}
	res.Nontrivial = mutated[0] && mutated[1]
	if res.Nontrivial {
		res.Count("probe:both-owners-mutated-in-place", 1)
	}
	res.StateKey = stateKey(s)
	return res
}

func stateKey(s *Scenario) string {
	var b bytes.Buffer
	fmt.Fprintf(&b, "%s|v%d|r%v|", s.Kind, s.Variant, s.Reserve > 0)
	if s.G != nil {
		fmt.Fprintf(&b, "%d|%d|", s.G.L, s.G.NumCoords())
	}
	for w := 0; w < 2; w++ {
		for _, m := range s.Prog[w] {
			b.WriteString(m.K[:2])
		}
		b.WriteByte('|')
	}
	for _, o := range s.Order {
		b.WriteByte(byte('0' + o))
	}
	return b.String()
}

// raceGeom runs the two programs as unsynchronised goroutines.
func raceGeom(s *Scenario, g, c geom.T, r0, r1 *raw, log *core.Log) core.Result {
	var res core.Result
	owners := [2]*owner{{g: g}, {g: c}}
	models := [2]*raw{r0, r1}
	panics := [2]string{}
	counts := [2]map[string]int64{{}, {}}
	mutated := [2]bool{}
	var wg sync.WaitGroup
	start := make(chan struct{})
	for w := 0; w < 2; w++ {
		wg.Add(1)
		go func(w int) {
			defer wg.Done()
			<-start
			var x *raw
			for _, mut := range s.Prog[w] {
				if !models[w].apply(mut, &x) {
					continue
				}
				counts[w]["mut:"+mut.K]++
				if inPlace[mut.K] {
					mutated[w] = true
				}
				if p := applyLib(owners[w], mut, models[w]); p != "" {
					panics[w] = fmt.Sprintf("%s: %s", mut.K, p)
					return
				}
			}
		}(w)
	}
	close(start)
	wg.Wait()
	for w := 0; w < 2; w++ {
		for k, v := range counts[w] {
			res.Count(k, v)
			res.Steps += int(v)
		}
		if panics[w] != "" {
			res.Fail("panic", "panic:concurrent:"+core.PanicSite(panics[w]), "owner %d: %s", w, panics[w])
			return res
		}
		if d := observeRaw(owners[w].g).diff(models[w]); d != "" {
			res.Fail("mutation-visible-through-other", "mutation-visible-through-other:"+s.Kind+":concurrent", "after both programs ran concurrently owner %d's object differs from its private model: %s", w, d)
			return res
		}
		log.Addf("owner %d final state matches its model (%d ordinates)", w, len(models[w].Flat))
	}
	if sharedPart != nil {
		if d := observeRaw(sharedPart).diff(rawOf(sharedModel.Clone())); d != "" {
			res.Fail("mutation-visible-through-other", "mutation-visible-through-pushed-part:"+s.Kind, "the part object that both owners pushed has changed: %s", d)
			return res
		}
	}
	res.Nontrivial = mutated[0] && mutated[1]
	if res.Nontrivial {
		res.Count("probe:both-owners-mutated-in-place", 1)
	}
	res.StateKey = stateKey(s)
	return res
}

// ---- Coord -----------------------------------------------------------------------------

// cloneStorm: n goroutines make k clones each of one original at the same
// time (Clone only reads the original) and write a value of their own into
// every clone; afterwards every clone is read again. It returns a description
// of the first clone that no longer holds what its owner wrote. mk makes one
// clone and returns how to write a value into all of its ordinates and how to
// read them.
func cloneStorm(n, k int, mk func() (write func(v float64), read func() []float64)) string {
	var wg sync.WaitGroup
	start := make(chan struct{})
	kept := make([][]func() []float64, n)
	for w := 0; w < n; w++ {
		wg.Add(1)
		go func(w int) {
			defer wg.Done()
			<-start
			for j := 0; j < k; j++ {
				write, read := mk()
				write(float64(1000*(w+1) + j))
				kept[w] = append(kept[w], read)
			}
		}(w)
	}
	close(start)
	wg.Wait()
	for w := range kept {
		for j, read := range kept[w] {
			for i, v := range read() {
				if v != float64(1000*(w+1)+j) {
					return fmt.Sprintf("clone %d of caller %d holds %v at position %d after the caller wrote %d there: another caller's clone lives in the same storage", j, w, v, i, 1000*(w+1)+j)
				}
			}
		}
	}
	return ""
}

func execCoord(s *Scenario, phase string, log *core.Log) core.Result {
	var res core.Result
	o := make(geom.Coord, len(s.C))
	for i, v := range s.C {
		o[i] = float64(v)
	}
	if len(s.C) == 0 && len(s.Prog[0])%2 == 0 {
		o = nil
	}
	var c geom.Coord
	if p := core.Guard(func() { c = o.Clone() }); p != "" {
		res.Fail("panic", "panic:clone:"+core.PanicSite(p), "Coord.Clone panicked: %s", p)
		return res
	}
	eq := func(a geom.Coord, b []float64) string {
		if len(a) != len(b) {
			return fmt.Sprintf("%d ordinates != %d", len(a), len(b))
		}
		for i := range a {
			if math.Float64bits(a[i]) != math.Float64bits(b[i]) {
				return fmt.Sprintf("ordinate %d: %s != %s", i, mgeom.FString(a[i]), mgeom.FString(b[i]))
			}
		}
		return ""
	}
	if d := eq(c, o); d != "" {
		res.Fail("clone-differs", "clone-differs:Coord", "Coord clone differs: %s", d)
		return res
	}
	if (c == nil) != (o == nil) {
		res.Fail("clone-differs", "clone-differs:Coord:nil-vs-empty", "Coord clone: the original is nil: %v, the clone is nil: %v", o == nil, c == nil)
		return res
	}
	if phase == "race" && s.Storm > 0 && len(o) > 0 {
		if d := cloneStorm(s.Storm, s.StormN, func() (func(float64), func() []float64) {
			c := o.Clone()
			return func(v float64) {
					for i := range c {
						c[i] = v
					}
				}, func() []float64 {
					return c
				}
		}); d != "" {
			res.Fail("mutation-visible-through-other", "clones-share-storage:Coord", "%s", d)
			return res
		}
		res.Count("probe:clone-storm", 1)
	}
	objs := [2]geom.Coord{o, c}
	models := [2][]float64{append([]float64(nil), o...), append([]float64(nil), o...)}
	mutated := [2]bool{}
	apply := func(w int, m Mut) {
		if len(objs[w]) == 0 {
			return
		}
		switch m.K {
		case "cidx":
			i := m.I % len(objs[w])
			objs[w][i] = float64(m.V)
			models[w][i] = float64(m.V)
			mutated[w] = true
		case "cset":
			other := make(geom.Coord, len(m.C))
			for i, v := range m.C {
				other[i] = float64(v)
			}
			objs[w].Set(other)
			copy(models[w], other)
			mutated[w] = mutated[w] || len(other) > 0
		}
	}
	if phase == "race" {
		var wg sync.WaitGroup
		start := make(chan struct{})
		for w := 0; w < 2; w++ {
			wg.Add(1)
			go func(w int) {
				defer wg.Done()
				<-start
				for _, m := range s.Prog[w] {
					apply(w, m)
				}
			}(w)
		}
		close(start)
		wg.Wait()
		for w := 0; w < 2; w++ {
			res.Steps += len(s.Prog[w])
			if d := eq(objs[w], models[w]); d != "" {
				res.Fail("mutation-visible-through-other", "mutation-visible-through-other:Coord:concurrent", "owner %d's coord differs from its model: %s", w, d)
				return res
			}
		}
	} else {
		pc := [2]int{}
		run := func(w int) bool {
			m := s.Prog[w][pc[w]]
			pc[w]++
			apply(w, m)
			res.Steps++
			res.Count("mut:"+m.K, 1)
			log.Addf("owner %d %s", w, m.K)
			for k := 0; k < 2; k++ {
				if d := eq(objs[k], models[k]); d != "" {
					sig := "own-mutation-wrong"
					if k != w {
						sig = "mutation-visible-through-other"
					}
					res.Fail(sig, sig+":Coord:"+m.K, "after owner %d's %s owner %d's coord differs from its model: %s", w, m.K, k, d)
					return false
				}
			}
			return true
		}
		for _, w := range s.Order {
			if pc[w] >= len(s.Prog[w]) {
				w = 1 - w
			}
			if pc[w] >= len(s.Prog[w]) {
				break
			}
			if !run(w) {
				return res
			}
		}
		for w := 0; w < 2; w++ {
			for pc[w] < len(s.Prog[w]) {
				if !run(w) {
					return res
				}
			}
		}
	}
	res.Nontrivial = mutated[0] && mutated[1]
	res.StateKey = stateKey(s)
	return res
}

// ---- Bounds ----------------------------------------------------------------------------

type bmodel struct {
	l        int
	min, max []float64
}

// observeBounds reads a box through its public observers only. The number of
// dimensions a box holds is not necessarily the stride of its layout (Set
// widens min/max without touching the layout), so dimensions are probed until
// Min/Max refuse.
func observeBounds(b *geom.Bounds) *bmodel {
	m := &bmodel{l: int(b.Layout())}
	for i := 0; i < 16; i++ {
		var lo, hi float64
		if p := core.Guard(func() { lo, hi = b.Min(i), b.Max(i) }); p != "" {
			break
		}
		m.min = append(m.min, lo)
		m.max = append(m.max, hi)
	}
	return m
}

func (a *bmodel) diff(b *bmodel) string {
	if a.l != b.l {
		return fmt.Sprintf("layout %d != %d", a.l, b.l)
	}
	if len(a.min) != len(b.min) {
		return fmt.Sprintf("%d dimensions %v..%v != %d dimensions %v..%v", len(a.min), a.min, a.max, len(b.min), b.min, b.max)
	}
	for i := range a.min {
		if math.Float64bits(a.min[i]) != math.Float64bits(b.min[i]) || math.Float64bits(a.max[i]) != math.Float64bits(b.max[i]) {
			return fmt.Sprintf("dimension %d: [%g,%g] != [%g,%g]", i, a.min[i], a.max[i], b.min[i], b.max[i])
		}
	}
	return ""
}

func execBounds(s *Scenario, phase string, log *core.Log) core.Result {
	var res core.Result
	src := s.G.Clone().Norm()
	g, err := mgeom.Build(src)
	if err != nil {
		res.Fail("build", "build:"+src.T, "building %s failed: %v", src, err)
		return res
	}
	st := mgeom.Stride(src.L)
	var o *geom.Bounds
	args := make([]float64, len(s.BArgs))
	for i, v := range s.BArgs {
		args[i] = float64(v)
	}
	if p := core.Guard(func() {
		switch s.BHow {
		case 1:
			o = g.Bounds()
		case 2:
			o = geom.NewBounds(geom.Layout(s.BL0)).Extend(g)
		case 3:
			o = geom.NewBounds(geom.Layout(src.L)).Set(args...)
		case 4:
			o = &geom.Bounds{}
		case 5:
			o = geom.NewBounds(geom.Layout(src.L)).SetCoords(geom.Coord(args[:st]), geom.Coord(args[st:]))
		default:
			o = geom.NewBounds(geom.Layout(src.L)).Extend(g)
		}
	}); p != "" {
		res.Fail("panic", "panic:bounds-setup:"+core.PanicSite(p), "bringing the box into being (how=%d) panicked: %s", s.BHow, p)
		return res
	}
	res.Count(fmt.Sprintf("bounds-how:%d", s.BHow), 1)
	// The owners' programs assume a box of the source layout holding exactly
	// that layout's dimensions; on any other box only the clone itself is
	// checked (what Set/Extend do to an over- or under-wide box is not stated).
	plain := int(o.Layout()) == src.L && len(observeBounds(o).min) == st
	if !plain {
		res.Count("probe:bounds-dims!=layout-stride-or-promoted", 1)
	}
	var c *geom.Bounds
	if p := core.Guard(func() { c = o.Clone() }); p != "" {
		res.Fail("panic", "panic:clone:"+core.PanicSite(p), "Bounds.Clone panicked: %s", p)
		return res
	}
	if d := observeBounds(c).diff(observeBounds(o)); d != "" {
		res.Fail("clone-differs", "clone-differs:Bounds", "Bounds clone differs: %s", d)
		return res
	}
	if phase == "race" && s.Storm > 0 && plain && st > 0 {
		if d := cloneStorm(s.Storm, s.StormN, func() (func(float64), func() []float64) {
			b := o.Clone()
			return func(v float64) {
					args := make([]float64, 2*st)
					for i := range args {
						args[i] = v
					}
					b.Set(args...) // writes into the box's own arrays
				}, func() []float64 {
					var out []float64
					for i := 0; i < st; i++ {
						out = append(out, b.Min(i), b.Max(i))
					}
					return out
				}
		}); d != "" {
			res.Fail("mutation-visible-through-other", "clones-share-storage:Bounds", "%s", d)
			return res
		}
		res.Count("probe:clone-storm", 1)
	}
	objs := [2]*geom.Bounds{o, c}
	models := [2]*bmodel{observeBounds(o), observeBounds(o)}
	mutated := [2]bool{}
	apply := func(w int, m Mut) string {
		return core.Guard(func() {
			if !plain {
				// Only Set with no more dimensions than the box's layout and
				// its min/max hold has a stated meaning on such a box: it
				// writes those dimensions in place and nothing else. That is
				// enough for shared storage to show.
				if m.K != "bset" || len(m.C) != st || len(m.C2) != st || st > objs[w].Layout().Stride() || st > len(models[w].min) {
					return
				}
				args := make([]float64, 0, 2*st)
				for _, v := range m.C {
					args = append(args, float64(v))
				}
				for _, v := range m.C2 {
					args = append(args, float64(v))
				}
				objs[w].Set(args...)
				// the slice spread into Set stays the caller's, who reuses it
				for i := range args {
					args[i] = -4242.5
				}
				for i := 0; i < st; i++ {
					models[w].min[i], models[w].max[i] = float64(m.C[i]), float64(m.C2[i])
				}
				mutated[w] = true
				return
			}
			switch m.K {
			case "bset":
				if len(m.C) != st || len(m.C2) != st {
					return
				}
				args := make([]float64, 0, 2*st)
				for _, v := range m.C {
					args = append(args, float64(v))
				}
				for _, v := range m.C2 {
					args = append(args, float64(v))
				}
				objs[w].Set(args...)
				// the slice spread into Set stays the caller's, who reuses it
				for i := range args {
					args[i] = -4242.5
				}
				for i := 0; i < st; i++ {
					models[w].min[i], models[w].max[i] = float64(m.C[i]), float64(m.C2[i])
				}
				mutated[w] = true
			case "bsetcoords":
				if len(m.C) != st || len(m.C2) != st {
					return
				}
				a, b := make(geom.Coord, st), make(geom.Coord, st)
				for i := 0; i < st; i++ {
					a[i], b[i] = float64(m.C[i]), float64(m.C2[i])
					models[w].min[i], models[w].max[i] = math.Min(a[i], b[i]), math.Max(a[i], b[i])
				}
				objs[w].SetCoords(a, b)
				// the two coordinates stay the caller's
				for i := range a {
					a[i], b[i] = -31337, 31337
				}
			case "bextend":
				p := m.Part.Clone().Norm()
				if p.L != src.L {
					return
				}
				pg, err := mgeom.Build(p)
				if err != nil {
					panic(err)
				}
				objs[w].Extend(pg)
				p.EachCoord(func(_ int, co mgeom.Coord) {
					for i := 0; i < st && i < len(co); i++ {
						v := float64(co[i])
						if math.IsNaN(v) {
							continue
						}
						models[w].min[i] = math.Min(models[w].min[i], v)
						models[w].max[i] = math.Max(models[w].max[i], v)
					}
				})
				mutated[w] = true
			}
		})
	}
	if phase == "race" {
		var wg sync.WaitGroup
		start := make(chan struct{})
		panics := [2]string{}
		for w := 0; w < 2; w++ {
			wg.Add(1)
			go func(w int) {
				defer wg.Done()
				<-start
				for _, m := range s.Prog[w] {
					if p := apply(w, m); p != "" {
						panics[w] = p
						return
					}
				}
			}(w)
		}
		close(start)
		wg.Wait()
		for w := 0; w < 2; w++ {
			res.Steps += len(s.Prog[w])
			if panics[w] != "" {
				res.Fail("panic", "panic:bounds:"+core.PanicSite(panics[w]), "owner %d: %s", w, panics[w])
				return res
			}
			if d := observeBounds(objs[w]).diff(models[w]); d != "" {
				res.Fail("mutation-visible-through-other", "mutation-visible-through-other:Bounds:concurrent", "owner %d's bounds differ from its model: %s", w, d)
				return res
			}
		}
	} else {
		pc := [2]int{}
		run := func(w int) bool {
			m := s.Prog[w][pc[w]]
			pc[w]++
			if p := apply(w, m); p != "" {
				res.Fail("panic", "panic:bounds:"+core.PanicSite(p), "owner %d %s panicked: %s", w, m.K, p)
				return false
			}
			res.Steps++
			res.Count("mut:"+m.K, 1)
			log.Addf("owner %d %s", w, m.K)
			for k := 0; k < 2; k++ {
				if d := observeBounds(objs[k]).diff(models[k]); d != "" {
					sig := "own-mutation-wrong"
					if k != w {
						sig = "mutation-visible-through-other"
					}
					res.Fail(sig, sig+":Bounds:"+m.K, "after owner %d's %s owner %d's bounds differ from its model: %s", w, m.K, k, d)
					return false
				}
			}
			return true
		}
		for _, w := range s.Order {
			if pc[w] >= len(s.Prog[w]) {
				w = 1 - w
			}
			if pc[w] >= len(s.Prog[w]) {
				break
			}
			if !run(w) {
				return res
			}
		}
		for w := 0; w < 2; w++ {
			for pc[w] < len(s.Prog[w]) {
				if !run(w) {
					return res
				}
			}
		}
	}
	res.Nontrivial = mutated[0] && mutated[1]
	res.StateKey = stateKey(s)
	return res
}
