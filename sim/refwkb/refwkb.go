// Package refwkb is an independent reference encoder and decoder for WKB
// (ISO 13249-3 / OGC 06-103r4 type codes base+1000*dimension) and PostGIS EWKB
// (doc/ZMSgeoms.txt: flag bits 0x80000000 Z, 0x40000000 M, 0x20000000 SRID),
// written over the neutral model of package mgeom. It never calls go-geom.
//
// The encoder also produces a field map (which byte belongs to which field)
// that the simulators use to aim faults and to bin coverage; the decoder is
// the "shadow parser" that classifies arbitrary bytes.
package refwkb

import (
	"encoding/binary"
	"errors"
	"fmt"
	"math"

	"verif/sim/mgeom"
)

// Codec selects the format variant.
type Codec struct {
	EWKB bool `json:"ewkb,omitempty"`
	// NaN: in WKB, an empty point is written as / read from all-NaN ordinates
	// (GeoPackage convention). EWKB always does this.
	NaN bool `json:"nan,omitempty"`
	// BE selects XDR (big endian); otherwise NDR.
	BE bool `json:"be,omitempty"`
}

func (c Codec) String() string {
	s := "wkb"
	if c.EWKB {
		s = "ewkb"
	} else if c.NaN {
		s = "wkb-nan"
	}
	if c.BE {
		return s + "/xdr"
	}
	return s + "/ndr"
}

// Field classes of the field map.
const (
	FOrder = "order"
	FType  = "type"
	FSRID  = "srid"
	FCount = "count"
	FOrd   = "ordinate"
)

// Field is one field of an encoding.
type Field struct {
	Off   int
	Len   int
	Class string
	Level int // for counts: the element level the count belongs to (1..3), 0 = collection members
	Depth int // nesting depth of the geometry that owns the field
	Kind  string // type of the geometry that owns the field
}

// Errors the reference encoder reports for models the formats cannot carry.
var (
	ErrEmptyPoint        = errors.New("refwkb: empty point is not representable in plain WKB")
	ErrUnsupportedLayout = errors.New("refwkb: layout is not representable")
)

const canonNaN = 0x7ff8000000000000

var baseCode = map[string]uint32{
	mgeom.Pt: 1, mgeom.LS: 2, mgeom.Pg: 3, mgeom.MPt: 4, mgeom.MLS: 5, mgeom.MPg: 6, mgeom.GC: 7,
}

type enc struct {
	c      Codec
	b      []byte
	fields []Field
}

func (e *enc) order() binary.ByteOrder {
	if e.c.BE {
		return binary.BigEndian
	}
	return binary.LittleEndian
}

func (e *enc) field(n int, class string, level, depth int, kind string) {
	e.fields = append(e.fields, Field{Off: len(e.b), Len: n, Class: class, Level: level, Depth: depth, Kind: kind})
}

func (e *enc) u32(v uint32, class string, level, depth int, kind string) {
	e.field(4, class, level, depth, kind)
	var buf [4]byte
	e.order().PutUint32(buf[:], v)
	e.b = append(e.b, buf[:]...)
}

func (e *enc) f64(v float64, depth int, kind string) {
	e.field(8, FOrd, 0, depth, kind)
	var buf [8]byte
	e.order().PutUint64(buf[:], math.Float64bits(v))
	e.b = append(e.b, buf[:]...)
}

func (e *enc) coords(cs []mgeom.Coord, depth int, kind string) {
	for _, c := range cs {
		for _, o := range c {
			e.f64(float64(o), depth, kind)
		}
	}
}

// typeWord computes the type word of a geometry with effective layout l.
func (e *enc) typeWord(t string, l int, srid int) (uint32, error) {
	code := baseCode[t]
	if code == 0 {
		return 0, fmt.Errorf("refwkb: type %q has no code", t)
	}
	var z, m bool
	switch l {
	case 1:
	case 2:
		z = true
	case 3:
		m = true
	case 4:
		z, m = true, true
	default:
		return 0, ErrUnsupportedLayout
	}
	if e.c.EWKB {
		if z {
			code |= 0x80000000
		}
		if m {
			code |= 0x40000000
		}
		if srid != 0 {
			code |= 0x20000000
		}
		return code, nil
	}
	switch {
	case z && m:
		code += 3000
	case m:
		code += 2000
	case z:
		code += 1000
	}
	return code, nil
}

func (e *enc) geom(m *mgeom.Geom, depth int, top bool) error {
	l := m.EffLayout()
	if l == 0 {
		// Only a collection without any coordinates may lack a layout; it is
		// written with the 2D type code.
		if m.T != mgeom.GC || m.NumCoords() != 0 || hasNonCollectionLeaf(m) {
			return ErrUnsupportedLayout
		}
		l = 1
	}
	srid := 0
	if e.c.EWKB {
		srid = m.S
	}
	tw, err := e.typeWord(m.T, l, srid)
	if err != nil {
		return err
	}
	e.field(1, FOrder, 0, depth, m.T)
	if e.c.BE {
		e.b = append(e.b, 0)
	} else {
		e.b = append(e.b, 1)
	}
	e.u32(tw, FType, 0, depth, m.T)
	if e.c.EWKB && srid != 0 {
		e.u32(uint32(srid), FSRID, 0, depth, m.T)
	}
	switch m.T {
	case mgeom.Pt:
		if len(m.P[0][0]) == 0 {
			if !e.c.EWKB && !e.c.NaN {
				return ErrEmptyPoint
			}
			for i := 0; i < mgeom.Stride(l); i++ {
				e.f64(math.Float64frombits(canonNaN), depth, m.T)
			}
			return nil
		}
		e.coords(m.P[0][0], depth, m.T)
	case mgeom.LS:
		e.u32(uint32(len(m.P[0][0])), FCount, 1, depth, m.T)
		e.coords(m.P[0][0], depth, m.T)
	case mgeom.Pg:
		e.u32(uint32(len(m.P[0])), FCount, 2, depth, m.T)
		for _, ring := range m.P[0] {
			e.u32(uint32(len(ring)), FCount, 1, depth, m.T)
			e.coords(ring, depth, m.T)
		}
	case mgeom.MPt:
		e.u32(uint32(len(m.P[0])), FCount, 1, depth, m.T)
		for _, pt := range m.P[0] {
			if err := e.geom(&mgeom.Geom{T: mgeom.Pt, L: m.L, P: [][][]mgeom.Coord{{pt}}}, depth+1, false); err != nil {
				return err
			}
		}
	case mgeom.MLS:
		e.u32(uint32(len(m.P[0])), FCount, 2, depth, m.T)
		for _, line := range m.P[0] {
			if err := e.geom(&mgeom.Geom{T: mgeom.LS, L: m.L, P: [][][]mgeom.Coord{{line}}}, depth+1, false); err != nil {
				return err
			}
		}
	case mgeom.MPg:
		e.u32(uint32(len(m.P)), FCount, 3, depth, m.T)
		for _, poly := range m.P {
			if err := e.geom(&mgeom.Geom{T: mgeom.Pg, L: m.L, P: [][][]mgeom.Coord{poly}}, depth+1, false); err != nil {
				return err
			}
		}
	case mgeom.GC:
		lvl := 0
		if e.c.EWKB {
			lvl = 1
		}
		e.u32(uint32(len(m.G)), FCount, lvl, depth, m.T)
		for _, g := range m.G {
			if err := e.geom(g, depth+1, false); err != nil {
				return err
			}
		}
	default:
		return fmt.Errorf("refwkb: cannot encode %q", m.T)
	}
	return nil
}

func hasNonCollectionLeaf(m *mgeom.Geom) bool {
	for _, g := range m.G {
		if g.T != mgeom.GC || hasNonCollectionLeaf(g) {
			return true
		}
	}
	return false
}

// Encode returns the reference encoding of m and its field map.
func Encode(c Codec, m *mgeom.Geom) ([]byte, []Field, error) {
	m.Norm()
	e := &enc{c: c}
	if err := e.geom(m, 0, true); err != nil {
		return nil, nil, err
	}
	return e.b, e.fields, nil
}

// Limits are the per-level element limits; a negative value disables a level.
type Limits [4]int

// NoLimits disables every level.
var NoLimits = Limits{0, -1, -1, -1}

// Classes a decode of arbitrary bytes can fall into.
const (
	COK          = "ok"          // a geometry; Model and Consumed are set
	CTooLarge    = "too-large"   // a count exceeds the limit of its level (Level is set)
	CError       = "error"       // malformed in a way every reading must reject
	CUnspecified = "unspecified" // the format documents leave the meaning open
	CUnbacked    = "unbacked"    // a count claims more elements than the remaining input can hold (and no limit rejects it first)
)

// Verdict is the shadow parser's classification.
type Verdict struct {
	Class    string
	Level    int
	Why      string
	Model    *mgeom.Geom
	Consumed int
	// Unspec is set when somewhere an unspecified construct was seen but
	// decoding could continue; the final class is then CUnspecified unless an
	// error class supersedes it.
	unspec string
}

type dec struct {
	c      Codec
	lim    Limits
	b      []byte
	pos    int
	unspec string
}

type decErr struct {
	class string
	level int
	why   string
}

func (e *decErr) Error() string { return e.class + ": " + e.why }

func (d *dec) need(n int, what string) error {
	if d.pos+n > len(d.b) {
		return &decErr{class: CError, why: fmt.Sprintf("input ends inside %s at offset %d", what, d.pos)}
	}
	return nil
}

func (d *dec) u32(order binary.ByteOrder, what string) (uint32, error) {
	if err := d.need(4, what); err != nil {
		return 0, err
	}
	v := order.Uint32(d.b[d.pos:])
	d.pos += 4
	return v, nil
}

// count reads a count field of the given level, applies the limit and the
// backing rule (each announced element needs at least minElem further bytes).
func (d *dec) count(order binary.ByteOrder, level int, minElem int, what string) (int, error) {
	n, err := d.u32(order, what)
	if err != nil {
		return 0, err
	}
	limited := false
	if level >= 1 && level <= 3 {
		if lim := d.lim[level]; lim >= 0 {
			limited = true
			if int64(n) > int64(lim) {
				return 0, &decErr{class: CTooLarge, level: level, why: fmt.Sprintf("%s %d exceeds limit %d of level %d", what, n, lim, level)}
			}
		}
	}
	// A count within an enabled limit may be followed whatever it claims (what
	// it can make a decoder allocate is bounded by the limit; the input then
	// simply ends early). Without a limit, a count that drives an up-front
	// allocation (minElem > 0) must be backed by the remaining input; member
	// counts (minElem == 0) drive none: members are read until the input ends.
	if !limited && minElem > 0 && int64(n)*int64(minElem) > int64(len(d.b)-d.pos) {
		return 0, &decErr{class: CUnbacked, level: level, why: fmt.Sprintf("%s %d needs %d bytes, %d remain, and level %d has no limit", what, n, int64(n)*int64(minElem), len(d.b)-d.pos, level)}
	}
	return int(n), nil
}

func (d *dec) coords(order binary.ByteOrder, n, stride int) ([]mgeom.Coord, error) {
	if err := d.need(8*n*stride, "coordinates"); err != nil {
		return nil, err
	}
	out := make([]mgeom.Coord, n)
	for i := range out {
		c := make(mgeom.Coord, stride)
		for j := range c {
			c[j] = mgeom.F(math.Float64frombits(order.Uint64(d.b[d.pos:])))
			d.pos += 8
		}
		out[i] = c
	}
	return out, nil
}

func (d *dec) geom(depth int) (*mgeom.Geom, error) {
	if err := d.need(1, "byte order"); err != nil {
		return nil, err
	}
	var order binary.ByteOrder
	switch d.b[d.pos] {
	case 0:
		order = binary.BigEndian
	case 1:
		order = binary.LittleEndian
	default:
		return nil, &decErr{class: CError, why: fmt.Sprintf("byte order %d", d.b[d.pos])}
	}
	d.pos++
	tw, err := d.u32(order, "type word")
	if err != nil {
		return nil, err
	}
	var base uint32
	var l int
	srid := 0
	if d.c.EWKB {
		z, m, s := tw&0x80000000 != 0, tw&0x40000000 != 0, tw&0x20000000 != 0
		base = tw &^ 0xe0000000
		switch {
		case z && m:
			l = 4
		case z:
			l = 2
		case m:
			l = 3
		default:
			l = 1
		}
		if s {
			v, err := d.u32(order, "srid")
			if err != nil {
				return nil, err
			}
			srid = int(v)
			if depth > 0 && d.unspec == "" {
				d.unspec = "a member geometry carries its own SRID"
			}
		}
		if base > 0xffff && d.unspec == "" {
			d.unspec = fmt.Sprintf("stray high bits in type word %#x", tw)
		}
	} else {
		base = tw % 1000
		switch tw / 1000 {
		case 0:
			l = 1
		case 1:
			l = 2
		case 2:
			l = 3
		case 3:
			l = 4
		default:
			return nil, &decErr{class: CError, why: fmt.Sprintf("type word %d has no dimension code", tw)}
		}
	}
	stride := mgeom.Stride(l)
	m := &mgeom.Geom{L: l, S: srid}
	switch base {
	case 1:
		m.T = mgeom.Pt
		cs, err := d.coords(order, 1, stride)
		if err != nil {
			return nil, err
		}
		allNaN := true
		for _, o := range cs[0] {
			if math.Float64bits(float64(o)) != canonNaN {
				allNaN = false
			}
		}
		if allNaN && (d.c.EWKB || d.c.NaN) {
			m.P = [][][]mgeom.Coord{{{}}}
		} else {
			m.P = [][][]mgeom.Coord{{cs}}
		}
	case 2:
		m.T = mgeom.LS
		n, err := d.count(order, 1, 8*stride, "point count")
		if err != nil {
			return nil, err
		}
		cs, err := d.coords(order, n, stride)
		if err != nil {
			return nil, err
		}
		m.P = [][][]mgeom.Coord{{cs}}
	case 3:
		m.T = mgeom.Pg
		n, err := d.count(order, 2, 4, "ring count")
		if err != nil {
			return nil, err
		}
		rings := make([][]mgeom.Coord, 0, n)
		for i := 0; i < n; i++ {
			k, err := d.count(order, 1, 8*stride, "ring point count")
			if err != nil {
				return nil, err
			}
			cs, err := d.coords(order, k, stride)
			if err != nil {
				return nil, err
			}
			rings = append(rings, cs)
		}
		m.P = [][][]mgeom.Coord{rings}
	case 4, 5, 6:
		want := map[uint32]string{4: mgeom.Pt, 5: mgeom.LS, 6: mgeom.Pg}[base]
		m.T = map[uint32]string{4: mgeom.MPt, 5: mgeom.MLS, 6: mgeom.MPg}[base]
		level := int(base) - 3
		n, err := d.count(order, level, 0, "member count")
		if err != nil {
			return nil, err
		}
		if base == 6 {
			m.P = [][][]mgeom.Coord{}
		} else {
			m.P = [][][]mgeom.Coord{{}}
		}
		for i := 0; i < n; i++ {
			c, err := d.geom(depth + 1)
			if err != nil {
				return nil, err
			}
			if c.T != want {
				return nil, &decErr{class: CError, why: fmt.Sprintf("member %d of %s is a %s", i, m.T, c.T)}
			}
			if c.L != l {
				return nil, &decErr{class: CError, why: fmt.Sprintf("member %d of %s has layout %d, parent %d", i, m.T, c.L, l)}
			}
			switch base {
			case 4:
				m.P[0] = append(m.P[0], c.P[0][0])
			case 5:
				m.P[0] = append(m.P[0], c.P[0][0])
			case 6:
				m.P = append(m.P, c.P[0])
			}
		}
	case 7:
		m.T = mgeom.GC
		level := 0
		if d.c.EWKB {
			level = 1
		}
		n, err := d.count(order, level, 0, "member count")
		if err != nil {
			return nil, err
		}
		for i := 0; i < n; i++ {
			c, err := d.geom(depth + 1)
			if err != nil {
				return nil, err
			}
			m.G = append(m.G, c)
		}
		if n == 0 {
			m.Fixed = true
		} else {
			m.L = m.EffLayout()
		}
	default:
		return nil, &decErr{class: CError, why: fmt.Sprintf("geometry type code %d", base)}
	}
	return m, nil
}

// Decode classifies b as the encoding of one geometry starting at offset 0
// under the given limits.
func Decode(c Codec, lim Limits, b []byte) Verdict {
	d := &dec{c: c, lim: lim, b: b}
	m, err := d.geom(0)
	if err != nil {
		var de *decErr
		if errors.As(err, &de) {
			if d.unspec != "" && de.class != CUnbacked {
				// an unspecified construct was met before the problem: another
				// legitimate reading may not reach the problem at all
				return Verdict{Class: CUnspecified, Why: d.unspec + "; then " + de.why, unspec: d.unspec}
			}
			return Verdict{Class: de.class, Level: de.level, Why: de.why, unspec: d.unspec}
		}
		return Verdict{Class: CError, Why: err.Error()}
	}
	if d.unspec != "" {
		return Verdict{Class: CUnspecified, Why: d.unspec, Model: m, Consumed: d.pos}
	}
	return Verdict{Class: COK, Model: m.Norm(), Consumed: d.pos}
}

// SawUnspecified reports whether an unspecified construct was met before the
// verdict was reached (relevant when the verdict is an error class).
func (v Verdict) SawUnspecified() bool { return v.unspec != "" || v.Class == CUnspecified }

// Range is the byte extent of one (sub-)geometry of an encoding.
type Range struct {
	Start, End int
	Depth      int
	Kind       string
}

// SubRanges lists the byte extents of every geometry of an encoding, outermost
// first, from its field map: a geometry starts at its byte-order field and
// ends where the next geometry of the same or a shallower depth starts.
func SubRanges(fields []Field, total int) []Range {
	var out []Range
	for i, f := range fields {
		if f.Class != FOrder {
			continue
		}
		end := total
		for _, g := range fields[i+1:] {
			if g.Class == FOrder && g.Depth <= f.Depth {
				end = g.Off
				break
			}
		}
		out = append(out, Range{Start: f.Off, End: end, Depth: f.Depth, Kind: f.Kind})
	}
	return out
}
