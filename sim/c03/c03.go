// Package c03 simulates the WKB/EWKB stream codecs between a model geometry and
// a faulty writer / reader pair and checks them against the reference codec.
//
//	model --Build--> geom.T --Write--> simio.Writer --(bytes)--> simio.Reader --Read--> geom.T
package c03

import (
	"bufio"
	"bytes"
	"encoding/hex"
	"encoding/json"
	"errors"
	"fmt"
	"math"
	"strings"

	geom "github.com/twpayne/go-geom"

	"verif/sim/core"
	"verif/sim/mgeom"
	"verif/sim/prng"
	"verif/sim/refwkb"
	"verif/sim/simio"
	"verif/sim/wkbadapt"
)

// Scenario is one closed C03 scenario.
type Scenario struct {
	// Mode "enum": one geometry, every fault offset and every split position
	// is tried. Mode "random": several geometries through one drawn plan.
	Mode  string        `json:"mode"`
	Codec refwkb.Codec  `json:"codec"`
	Geoms []*mgeom.Geom `json:"geoms"`
	Junk  string        `json:"junk,omitempty"` // hex bytes that follow the last geometry
	// random mode only
	Read      simio.ReadPlan `json:"read"`
	WriteFail struct {
		On        bool `json:"on,omitempty"`
		Geom      int  `json:"geom,omitempty"`
		At        int  `json:"at"`
		Short     bool `json:"short,omitempty"`
		Transient bool `json:"transient,omitempty"`
	} `json:"write_fail"`
	WrongKind string `json:"wrong_kind,omitempty"` // wrapper kind used for the wrong-type Scan
	// RCap / WCap: what the simulated reader and writer offer beyond
	// io.Reader / io.Writer ("" nothing, "byte" io.ByteReader / io.ByteWriter,
	// "string" io.StringWriter): a codec may take another path then.
	RCap string `json:"rcap,omitempty"`
	WCap string `json:"wcap,omitempty"`
	// EKind: what the devices fail with in this run (simio.ErrKinds): a plain
	// error, one that calls itself temporary or a timeout, io.ErrUnexpectedEOF,
	// io.ErrClosedPipe, io.ErrNoProgress.
	EKind string `json:"ekind,omitempty"`
	// Limits, when set, are the process-wide element limits
	// (wkbcommon.MaxGeometryElements) during the run. They always admit every
	// geometry of the scenario (often exactly: a count equal to its limit does
	// not exceed it), so nothing about the expected results changes.
	Limits *refwkb.Limits `json:"limits,omitempty"`
}

// caps is set by Execute for the helpers of this package (one scenario at a
// time per process).
var rcap, wcap, ekind string

type prop struct{}

func init() { core.Register(prop{}) }

func (prop) ID() string { return "C03" }

func (prop) Plan(tier string) []core.Phase {
	if tier == "thorough" {
		return []core.Phase{{Name: "enum", Runs: 2000000}, {Name: "random", Runs: 60000000}}
	}
	return []core.Phase{{Name: "enum", Runs: 40000}, {Name: "random", Runs: 1500000}}
}

func (prop) Describe() core.Description {
	return core.Description{
		Level:        "fault_enumeration",
		Rule:         "A scenario is 1-4 generated model geometries (7 types, nested collections, XY/XYZ/XYM/XYZM plus unsupported layouts, empty members, special floats, SRIDs up to 2^32-1), a codec (wkb, wkb NaN mode, ewkb) x byte order, and a closed fault plan. Phase 'enum': for ONE geometry every writer failure offset k in [0,len) (sticky short, sticky whole-call, transient), every reader split position, every stall position, every reader error offset and every truncation offset is executed (capped at 768 bytes; larger encodings get all call boundaries plus 64 sampled offsets). Phase 'random': several concatenated geometries plus junk through one drawn read plan and one drawn writer failure. A run is non-trivial when at least one fault directive fired inside an in-flight encode or decode of a non-empty encoding (counted from the reader/writer call records, never from configuration).",
		StateMeasure: "distinct (codec, byte order, type tree shape with layouts and emptiness pattern, fault kinds fired) tuples",
		Assumptions: []string{
			"the reference codec sim/refwkb (written from the ISO/OGC WKB and PostGIS EWKB documents over the neutral model, never calling go-geom) is correct",
			"bytes are compared for collections whose members carry SRID 0 (what the formats prescribe for a member SRID differs between documents); for members with their own SRID only the round trip through the library's own encoding is checked",
			"a mixed-layout collection's own dimension code is the join of its members' layouts, as the documentation of GeometryCollection.Layout promises",
			"the simulated reader honours the io.Reader contract (0 <= n <= len(p), at most 3 consecutive (0,nil) stalls); the simulated writer honours io.Writer (n < len(p) only together with an error)",
		},
		RealComponents: []string{"go-geom root package (constructors, Push, accessors)", "encoding/wkb", "encoding/ewkb", "encoding/wkbcommon", "encoding/wkbhex", "encoding/ewkbhex", "wkb/ewkb database/sql Scanner/Valuer wrappers", "stdlib io, encoding/binary, bytes, encoding/hex"},
		StubComponents: []string{"io.Writer (simio.Writer: failure offset, short/whole-call, sticky/transient; optionally also io.ByteWriter or io.StringWriter)", "io.Reader (simio.Reader: chunking, stalls, data+EOF, error at offset, truncation; optionally also io.ByteReader)", "database/sql driver (Scan/Value are called directly)"},
		FaultKinds:     []string{"write-fail-sticky-short", "write-fail-sticky-whole", "write-fail-transient", "read-split", "read-stall", "read-data+eof", "read-error", "read-error-with-data", "read-truncate"},
		Probes:         []string{"probe:error-inside-count", "probe:read-through-bufio.Reader", "probe:null-through-wrapper", "probe:untyped-wrapper-value", "probe:split-inside-type-word", "probe:stall-before-byte-order", "probe:srid>=2^31", "probe:xdr+zm+empty-member", "probe:nested-collection", "probe:mixed-layout-collection", "probe:empty-point", "probe:rejected-unsupported-layout", "probe:rejected-empty-point", "probe:concatenated>=2", "probe:enum-capped", "probe:member-srid-round-trip", "probe:result-rechecked-after-later-calls", "probe:error-kind-temporary", "probe:error-kind-timeout", "probe:error-kind-unexpected-eof", "probe:error-kind-closed-pipe", "probe:error-kind-no-progress", "probe:element-limits-configured", "probe:wrapper-scanned-twice", "probe:wkb-of-geometry-with-srid", "probe:reader-with-ReadByte", "probe:writer-with-byte", "probe:writer-with-string"},
	}
}

func (prop) Decode(raw []byte) (any, error) {
	var s Scenario
	d := json.NewDecoder(bytes.NewReader(raw))
	d.DisallowUnknownFields()
	if err := d.Decode(&s); err != nil {
		return nil, err
	}
	if s.Mode != "enum" && s.Mode != "random" {
		return nil, fmt.Errorf("bad mode %q", s.Mode)
	}
	if (s.RCap != "" && s.RCap != "byte") || (s.WCap != "" && s.WCap != "byte" && s.WCap != "string") {
		return nil, fmt.Errorf("bad device capabilities")
	}
	if s.Limits != nil {
		if s.Limits[0] != 0 {
			return nil, fmt.Errorf("limits[0] is unused")
		}
		for _, l := range s.Limits[1:] {
			if l < -1 || l > 100000 {
				return nil, fmt.Errorf("bad limit")
			}
		}
	}
	okKind := false
	for _, k := range simio.ErrKinds {
		okKind = okKind || k == s.EKind
	}
	if !okKind || (s.Read.ErrKind != "" && s.Read.ErrKind != s.EKind) {
		return nil, fmt.Errorf("bad error kind")
	}
	for _, g := range s.Geoms {
		if g == nil {
			return nil, fmt.Errorf("nil geometry")
		}
		if err := valid(g, 0); err != nil {
			return nil, err
		}
	}
	return &s, nil
}

func valid(g *mgeom.Geom, depth int) error {
	if depth > 6 {
		return fmt.Errorf("too deep")
	}
	if mgeom.Level(g.T) < 0 && g.T != mgeom.GC {
		return fmt.Errorf("bad type %q", g.T)
	}
	if g.T == mgeom.LR {
		return fmt.Errorf("linear ring is not encodable")
	}
	if g.L < 0 || g.L > 7 {
		return fmt.Errorf("bad layout %d", g.L)
	}
	if g.L == 0 && g.T != mgeom.GC && g.NumCoords() > 0 {
		return fmt.Errorf("coordinates without layout")
	}
	for _, c := range g.G {
		if c == nil {
			return fmt.Errorf("nil member")
		}
		if c.S < 0 || c.S > 1<<32-1 {
			return fmt.Errorf("bad member SRID")
		}
		if err := valid(c, depth+1); err != nil {
			return err
		}
		if g.Fixed && c.EffLayout() != g.L {
			return fmt.Errorf("fixed layout mismatch")
		}
	}
	return nil
}

func (prop) Generate(r *prng.Rand, phase string) any {
	s := &Scenario{Mode: phase}
	s.Codec = refwkb.Codec{EWKB: r.Chance(0.45), BE: r.Chance(0.5)}
	if !s.Codec.EWKB {
		s.Codec.NaN = r.Chance(0.5)
	}
	layouts := []int{1, 2, 3, 4}
	if r.Chance(0.08) {
		layouts = append(layouts, 5)
	}
	if r.Chance(0.04) {
		layouts = append(layouts, 0)
	}
	cfg := mgeom.SwarmCfg(r, layouts)
	cfg.ShareMembers = true // encoders only read: one member object may sit in a collection twice
	if phase == "enum" {
		// every fault position is enumerated: keep the messages short
		cfg.ExactCoords, cfg.ExactParts = 0, 0
		if cfg.MaxCoords > 5 {
			cfg.MaxCoords = 5
		}
		if cfg.MaxParts > 3 {
			cfg.MaxParts = 3
		}
	}
	n := 1
	if phase == "random" {
		n = r.Pick(3, 3, 2, 1) + 1
	}
	big := false
	for i := 0; i < n; i++ {
		g := cfg.GenAny(r)
		if phase == "random" && i == 0 && r.Chance(0.004) {
			// a coordinate array the size of an I/O block (and one more or less)
			g = cfg.Big(r, 1+r.Intn(4))
			g.S = mgeom.SRID(r)
			big = true
		}
		if !s.Codec.EWKB && r.Chance(0.7) {
			// plain WKB has no SRID field: the geometry's SRID (kept on the
			// object in the other 30% of the runs) must simply not be written
			g.S = 0
		}
		stripZeroLayout(g)
		if s.Codec.EWKB && g.T == mgeom.GC && r.Chance(0.25) {
			// collection members carrying their own SRID (the same as the
			// collection's or another one): only the round trip is checked
			setMemberSRIDs(r, g, g.S)
		}
		s.Geoms = append(s.Geoms, g)
	}
	if r.Chance(0.5) {
		junk := make([]byte, r.Range(1, 12))
		for i := range junk {
			junk[i] = byte(r.Intn(256))
		}
		s.Junk = hex.EncodeToString(junk)
	}
	s.Read = simio.NoFault()
	s.WriteFail.At = -1
	if phase == "random" {
		span := 400
		if big {
			span = 8*4100 + 64
		}
		s.Read = GenReadPlan(r, span)
		if big && r.Chance(0.5) {
			s.Read.Default = []int{512, 1024, 4096, 0}[r.Intn(4)]
		}
		if r.Chance(0.5) {
			s.WriteFail.On = true
			s.WriteFail.Geom = r.Intn(n)
			s.WriteFail.At = r.Intn(span / 2)
			if big {
				s.WriteFail.Geom = 0
			}
			s.WriteFail.Short = r.Chance(0.5)
			s.WriteFail.Transient = r.Chance(0.4)
		}
	}
	s.WrongKind = wkbadapt.Kinds[r.Intn(len(wkbadapt.Kinds))]
	s.RCap = []string{"", "", "byte"}[r.Intn(3)]
	s.WCap = []string{"", "", "byte", "string"}[r.Intn(4)]
	if r.Chance(0.4) {
		s.EKind = simio.ErrKinds[r.Intn(len(simio.ErrKinds))]
	}
	if s.Read.ErrAt >= 0 {
		s.Read.ErrKind = s.EKind
	}
	if r.Chance(0.25) {
		s.Limits = fitLimits(r, s)
	}
	return s
}

// fitLimits draws element limits that admit every geometry of the scenario:
// per level either disabled, or the smallest of a few values that still admits
// all of them (equal to the largest count when that is one of the values), or
// a larger one.
func fitLimits(r *prng.Rand, s *Scenario) *refwkb.Limits {
	var refs [][]byte
	for _, g := range s.Geoms {
		m := g.Clone().Norm()
		clearMemberSRIDs(m)
		if b, _, err := refwkb.Encode(s.Codec, m); err == nil {
			refs = append(refs, b)
		}
	}
	admits := func(l refwkb.Limits) bool {
		for _, b := range refs {
			if v := refwkb.Decode(s.Codec, l, b); v.Class != refwkb.COK {
				return false
			}
		}
		return true
	}
	choices := []int{0, 1, 2, 3, 4, 5, 6, 8, 12, 64, 1000, 100000}
	lim := refwkb.NoLimits
	for level := 1; level <= 3; level++ {
		if r.Chance(0.25) {
			continue // this level stays disabled
		}
		for ci, c := range choices {
			t := refwkb.NoLimits
			t[level] = c
			if admits(t) {
				if r.Chance(0.3) && ci+1 < len(choices) {
					c = choices[ci+1+r.Intn(len(choices)-ci-1)]
				}
				lim[level] = c
				break
			}
		}
	}
	if !admits(lim) {
		return nil
	}
	return &lim
}

func setMemberSRIDs(r *prng.Rand, g *mgeom.Geom, parent int) {
	for _, c := range g.G {
		switch r.Intn(3) {
		case 0:
			c.S = parent
		case 1:
			c.S = mgeom.SRID(r)
		}
		setMemberSRIDs(r, c, c.S)
	}
}

func hasMemberSRID(g *mgeom.Geom) bool {
	for _, c := range g.G {
		if c.S != 0 || hasMemberSRID(c) {
			return true
		}
	}
	return false
}

func clearMemberSRIDs(g *mgeom.Geom) {
	for _, c := range g.G {
		c.S = 0
		clearMemberSRIDs(c)
	}
}

// a non-collection with NoLayout can only be empty
func stripZeroLayout(g *mgeom.Geom) {
	if g.T != mgeom.GC && g.L == 0 {
		g.P = nil
		g.Norm()
	}
	for _, c := range g.G {
		c.S = 0
		stripZeroLayout(c)
	}
}

// memberSRIDRoundTrip checks only what the property states without guessing
// bytes: a collection whose members carry SRIDs encodes, and decoding that
// encoding gives back every member's SRID.
func memberSRIDRoundTrip(res *core.Result, log *core.Log, lib wkbadapt.Lib, s *Scenario, m *mgeom.Geom) bool {
	res.Count("probe:member-srid-round-trip", 1)
	g, err := mgeom.Build(m.Clone())
	if err != nil {
		res.Fail("build", "build:"+m.T, "building %s failed: %v", m, err)
		return false
	}
	var b []byte
	if p := core.Guard(func() { b, err = lib.Marshal(g) }); p != "" {
		res.Fail("panic", "panic:marshal:"+core.PanicSite(p), "Marshal panicked on %s: %s", m, p)
		return false
	}
	if err != nil {
		// unencodable for another reason (layout, ...): covered by the main flow
		return true
	}
	var g2 geom.T
	if p := core.Guard(func() { g2, err = lib.Unmarshal(b) }); p != "" {
		res.Fail("panic", "panic:unmarshal:"+core.PanicSite(p), "Unmarshal panicked on %x: %s", b, p)
		return false
	}
	log.Addf("member-SRID round trip: %d bytes err=%v", len(b), err)
	if err != nil {
		res.Fail("read-failed", "round-trip-failed:member-srid", "the library cannot decode its own encoding %x of %s: %v", b, m, err)
		return false
	}
	if hasCarveOut(m, s.Codec) {
		return true
	}
	obs, oerr := mgeom.Observe(g2)
	if oerr != nil {
		res.Fail("ill-formed", "ill-formed:member-srid", "decoded geometry is ill-formed: %v", oerr)
		return false
	}
	if d := mgeom.Diff(obs, m); d != "" {
		res.Fail("decoded-differs", "decoded-differs:member-srid", "encode-then-decode of a collection whose members carry SRIDs gives %s, original %s: %s (bytes %x)", obs, m, d, b)
		return false
	}
	return true
}

// GenReadPlan draws a read plan for a stream of about n bytes.
func GenReadPlan(r *prng.Rand, n int) simio.ReadPlan {
	p := simio.NoFault()
	sizes := []int{1, 2, 3, 4, 5, 7, 8, 9, 16, 0}
	p.Default = sizes[r.Intn(len(sizes))]
	nd := r.Pick(2, 2, 2, 1) * r.Range(1, 12)
	for i := 0; i < nd; i++ {
		switch r.Pick(6, 2, 1) {
		case 0:
			p.Dirs = append(p.Dirs, simio.Dir{K: simio.Chunk, N: sizes[r.Intn(len(sizes)-1)]})
		case 1:
			p.Dirs = append(p.Dirs, simio.Dir{K: simio.Stall})
		case 2:
			p.Dirs = append(p.Dirs, simio.Dir{K: simio.DataEOF, N: sizes[r.Intn(len(sizes))]})
		}
	}
	switch r.Pick(5, 2, 2) {
	case 1:
		p.ErrAt = r.Intn(n)
		p.ErrWithData = r.Chance(0.5)
	case 2:
		p.TruncAt = r.Intn(n)
	}
	return p
}

type enc struct {
	m      *mgeom.Geom
	g      geom.T
	ref    []byte
	fields []refwkb.Field
	refErr error
	expect *mgeom.Geom // what decoding ref must observe as
	carve  bool
	// held are results of earlier successful decodes of ref that were found
	// correct when they were returned; they are looked at again at the end of
	// the run, after every later call (results must not share state)
	held []geom.T
}

func (e *enc) hold(g geom.T) {
	if len(e.held) < 256 {
		e.held = append(e.held, g)
	}
}

// recheckHeld observes again every result that was correct when it was
// returned: a later encode or decode must not have changed it.
func recheckHeld(res *core.Result, encs []*enc) bool {
	for i, e := range encs {
		for _, g := range e.held {
			res.Count("probe:result-rechecked-after-later-calls", 1)
			obs, oerr := mgeom.Observe(g)
			if oerr != nil {
				res.Fail("result-changed-later", "result-changed-later:ill-formed", "a geometry decoded earlier in this run (geometry %d) became ill-formed after later calls: %v", i, oerr)
				return false
			}
			if d := mgeom.Diff(obs, e.expect); d != "" {
				res.Fail("result-changed-later", "result-changed-later", "a geometry decoded earlier in this run (geometry %d) was %s when returned and is %s after later calls: %s", i, e.expect, obs, d)
				return false
			}
		}
	}
	return true
}

func hasCarveOut(m *mgeom.Geom, c refwkb.Codec) bool {
	switch m.T {
	case mgeom.GC:
		if len(m.G) == 0 && !m.Fixed {
			return true
		}
		if m.EffLayout() == 0 {
			return true
		}
		for _, g := range m.G {
			if hasCarveOut(g, c) {
				return true
			}
		}
		return false
	}
	carve := false
	check := func(cs []mgeom.Coord) {
		for _, co := range cs {
			all := len(co) > 0
			for _, o := range co {
				if fbits(float64(o)) != 0x7ff8000000000000 {
					all = false
				}
			}
			if all {
				carve = true
			}
		}
	}
	if m.T == mgeom.Pt || m.T == mgeom.MPt {
		for i := range m.P {
			for j := range m.P[i] {
				check(m.P[i][j])
			}
		}
	}
	return carve
}

func classAt(fields []refwkb.Field, off int) (string, int) {
	for _, f := range fields {
		if off >= f.Off && off < f.Off+f.Len {
			return f.Class, f.Off
		}
	}
	return "end", off
}

func shapeKey(m *mgeom.Geom) string {
	var b strings.Builder
	var rec func(m *mgeom.Geom)
	rec = func(m *mgeom.Geom) {
		fmt.Fprintf(&b, "%s%d", m.T[:2]+m.T[len(m.T)-2:], m.EffLayout())
		if m.T == mgeom.GC {
			b.WriteByte('(')
			for _, g := range m.G {
				rec(g)
			}
			b.WriteByte(')')
			return
		}
		b.WriteByte('[')
		for i := range m.P {
			for j := range m.P[i] {
				if len(m.P[i][j]) == 0 {
					b.WriteByte('e')
				} else {
					b.WriteByte('x')
				}
			}
			b.WriteByte(';')
		}
		b.WriteByte(']')
	}
	rec(m)
	return b.String()
}

func (prop) Execute(scAny any, phase string, log *core.Log) core.Result {
	s := scAny.(*Scenario)
	var res core.Result
	lib := wkbadapt.Lib{C: s.Codec}
	if s.Limits != nil {
		defer wkbadapt.SetLimits(*s.Limits)()
		res.Count("probe:element-limits-configured", 1)
	}
	rcap, wcap, ekind = s.RCap, s.WCap, s.EKind
	if s.EKind != "" {
		res.Count("probe:error-kind-"+s.EKind, 1)
	}
	if s.RCap != "" {
		res.Count("probe:reader-with-ReadByte", 1)
	}
	if s.WCap != "" {
		res.Count("probe:writer-with-"+s.WCap, 1)
	}
	log.Addf("codec %s mode %s geoms %d rcap %q wcap %q", s.Codec, s.Mode, len(s.Geoms), s.RCap, s.WCap)
	var encs []*enc
	var key strings.Builder
	key.WriteString(s.Codec.String())
	faultFired := false
	for gi, m := range s.Geoms {
		m = m.Clone().Norm()
		if hasMemberSRID(m) {
			if s.Codec.EWKB && !memberSRIDRoundTrip(&res, log, lib, s, m) {
				return res
			}
			clearMemberSRIDs(m)
		}
		e := &enc{m: m}
		e.ref, e.fields, e.refErr = refwkb.Encode(s.Codec, m)
		key.WriteString("|" + shapeKey(m))
		probes(&res, s, m, 0)
		var err error
		e.g, err = mgeom.Build(m)
		if err != nil {
			res.Fail("build", "build:"+m.T, "geometry %d: building the model through the public API failed: %v; model %s", gi, err, m)
			return res
		}
		if !oneGeomWrite(&res, log, lib, s, gi, e, &faultFired) {
			return res
		}
		if e.refErr == nil {
			v := refwkb.Decode(s.Codec, refwkb.NoLimits, e.ref)
			if v.Class != refwkb.COK || v.Consumed != len(e.ref) {
				// the reference contradicts itself: harness bug, not a finding
				panic(fmt.Sprintf("refwkb cannot decode its own encoding of %s: %+v", m, v))
			}
			e.expect = v.Model
			e.carve = hasCarveOut(m, s.Codec)
			if !e.carve {
				want := m
				if !s.Codec.EWKB && m.S != 0 {
					res.Count("probe:wkb-of-geometry-with-srid", 1)
					want = m.Clone()
					want.S = 0
				}
				if d := mgeom.Diff(e.expect, want); d != "" {
					panic(fmt.Sprintf("refwkb round trip differs without a carve-out: %s; model %s", d, m))
				}
			}
			encs = append(encs, e)
		}
	}
	if len(encs) == 0 {
		res.StateKey = key.String()
		return res
	}
	if len(encs) >= 2 {
		res.Count("probe:concatenated>=2", 1)
	}
	junk, _ := hex.DecodeString(s.Junk)
	var stream []byte
	for _, e := range encs {
		stream = append(stream, e.ref...)
	}
	stream = append(stream, junk...)
	ok := true
	if s.Mode == "enum" {
		ok = enumReads(&res, log, lib, s, encs[0], junk, &faultFired)
	} else {
		ok = readStream(&res, log, lib, encs, stream, s.Read, &faultFired, "plan")
	}
	if ok {
		ok = readBytesBuffer(&res, lib, encs, stream)
	}
	if ok && s.Mode != "enum" {
		ok = readBufio(&res, lib, encs, stream)
	}
	if ok {
		for _, e := range encs {
			if !wrappers(&res, log, lib, s, e) {
				ok = false
				break
			}
		}
	}
	if ok {
		recheckHeld(&res, encs)
	}
	res.Nontrivial = faultFired
	for _, k := range core.SortedKeys(res.Counters) {
		if !strings.HasPrefix(k, "probe:") && !strings.Contains(k, "@") {
			key.WriteString("|" + k)
		}
	}
	res.StateKey = key.String()
	return res
}

func probes(res *core.Result, s *Scenario, m *mgeom.Geom, depth int) {
	if m.S >= 1<<31 {
		res.Count("probe:srid>=2^31", 1)
	}
	if m.T == mgeom.GC {
		if depth > 0 {
			res.Count("probe:nested-collection", 1)
		}
		ls := map[int]bool{}
		for _, g := range m.G {
			ls[g.EffLayout()] = true
			probes(res, s, g, depth+1)
		}
		if len(ls) > 1 {
			res.Count("probe:mixed-layout-collection", 1)
		}
		return
	}
	hasEmpty := false
	for i := range m.P {
		if mgeom.Level(m.T) == 3 && len(m.P[i]) == 0 {
			hasEmpty = true
		}
		for j := range m.P[i] {
			if len(m.P[i][j]) == 0 {
				hasEmpty = true
				if m.T == mgeom.Pt || m.T == mgeom.MPt {
					res.Count("probe:empty-point", 1)
				}
			}
		}
	}
	if hasEmpty && s.Codec.BE && m.L == 4 && mgeom.Level(m.T) >= 2 {
		res.Count("probe:xdr+zm+empty-member", 1)
	}
}

// oneGeomWrite performs the fault-free write checks and the writer-failure
// checks for one geometry. It returns false after recording a violation.
func oneGeomWrite(res *core.Result, log *core.Log, lib wkbadapt.Lib, s *Scenario, gi int, e *enc, fired *bool) bool {
	w := simio.NewWriter(simio.WritePlan{FailAt: -1})
	var err error
	if p := core.Guard(func() { err = lib.Write(w.With(wcap), e.g) }); p != "" {
		res.Fail("panic", "panic:write:"+core.PanicSite(p), "Write panicked on %s: %s", e.m, p)
		return false
	}
	res.Steps += len(w.Calls)
	log.Addf("write g%d calls=%d bytes=%d err=%v", gi, len(w.Calls), len(w.Buf), err)
	if e.refErr != nil {
		// documented rejections
		if err == nil {
			res.Fail("accepted-unencodable", "accepted-unencodable:"+e.refErr.Error(), "Write accepted %s, which the format cannot carry (%v); emitted %x", e.m, e.refErr, w.Buf)
			return false
		}
		if errors.Is(e.refErr, refwkb.ErrUnsupportedLayout) {
			var ul geom.ErrUnsupportedLayout
			if !errors.As(err, &ul) {
				res.Fail("wrong-rejection", "wrong-rejection:layout", "Write rejected %s with %T %q, want an unsupported-layout error", e.m, err, err)
				return false
			}
			res.Count("probe:rejected-unsupported-layout", 1)
		} else {
			res.Count("probe:rejected-empty-point", 1)
		}
		var merr error
		var mb []byte
		if p := core.Guard(func() { mb, merr = lib.Marshal(e.g) }); p != "" {
			res.Fail("panic", "panic:marshal:"+core.PanicSite(p), "Marshal panicked on %s: %s", e.m, p)
			return false
		}
		if merr == nil {
			res.Fail("accepted-unencodable", "accepted-unencodable:marshal", "Marshal accepted %s (%v); emitted %x", e.m, e.refErr, mb)
			return false
		}
		return true
	}
	if err != nil {
		res.Fail("write-error", "write-error:"+e.m.T, "fault-free Write of %s failed: %v", e.m, err)
		return false
	}
	if !bytes.Equal(w.Buf, e.ref) {
		res.Fail("bytes-differ", "bytes-differ:write:"+firstDiffClass(e, w.Buf), "Write(%s) of %s emitted\n  %x\nreference\n  %x\nfirst difference at offset %d (%s)", s.Codec, e.m, w.Buf, e.ref, firstDiff(w.Buf, e.ref), firstDiffClass(e, w.Buf))
		return false
	}
	mb, merr := lib.Marshal(e.g)
	if merr != nil || !bytes.Equal(mb, e.ref) {
		res.Fail("bytes-differ", "bytes-differ:marshal", "Marshal(%s) of %s = %x, %v; reference %x", s.Codec, e.m, mb, merr, e.ref)
		return false
	}
	// the returned bytes are the caller's: overwritten, they must not show in
	// a later encoding (nor must the next encoding come back in the same array)
	for i := range mb {
		mb[i] = 0xa5
	}
	mb2, merr2 := lib.Marshal(e.g)
	if merr2 != nil || !bytes.Equal(mb2, e.ref) {
		res.Fail("bytes-differ", "bytes-differ:marshal-after-caller-overwrote-earlier-result", "Marshal(%s) of %s after the caller overwrote the bytes of the previous result = %x, %v; reference %x", s.Codec, e.m, mb2, merr2, e.ref)
		return false
	}
	if len(mb) > 0 && len(mb2) > 0 && &mb[0] == &mb2[0] {
		res.Fail("bytes-differ", "marshal-results-share-storage", "two Marshal results of %s share one backing array", e.m)
		return false
	}
	hs, herr := lib.HexEncode(e.g)
	if herr != nil || !strings.EqualFold(hs, hex.EncodeToString(e.ref)) {
		res.Fail("bytes-differ", "bytes-differ:hex", "hex Encode(%s) of %s = %q, %v; reference %x", s.Codec, e.m, hs, herr, e.ref)
		return false
	}
	// the same encoding into a real *bytes.Buffer that was used before and
	// Reset (its spare capacity holds stale bytes): a codec may take another
	// path for such a destination
	var bb bytes.Buffer
	bb.Write(bytes.Repeat([]byte{0xee}, len(e.ref)+32))
	bb.Reset()
	if werr := lib.Write(&bb, e.g); werr != nil || !bytes.Equal(bb.Bytes(), e.ref) {
		res.Fail("bytes-differ", "bytes-differ:write-into-reused-bytes.Buffer", "Write(%s) of %s into a reused bytes.Buffer gave %x, %v; reference %x", s.Codec, e.m, bb.Bytes(), werr, e.ref)
		return false
	}
	// a hex string once returned stays what it is
	hs2, _ := lib.HexEncode(e.g)
	if !strings.EqualFold(hs, hex.EncodeToString(e.ref)) || !strings.EqualFold(hs2, hs) {
		res.Fail("bytes-differ", "bytes-differ:hex-after-next-encode", "the hex string of %s changed after the next Encode: %q then %q; reference %x", e.m, hs, hs2, e.ref)
		return false
	}
	if lib.HasSQL() {
		ndr := s.Codec
		ndr.BE = false
		refNDR, _, _ := refwkb.Encode(ndr, e.m)
		var val any
		var verr error
		if p := core.Guard(func() { val, verr = lib.Value(e.g) }); p != "" {
			res.Fail("panic", "panic:value:"+core.PanicSite(p), "Value panicked on %s: %s", e.m, p)
			return false
		}
		vb, isBytes := val.([]byte)
		if verr != nil || !isBytes || !bytes.Equal(vb, refNDR) {
			res.Fail("bytes-differ", "bytes-differ:sql-value", "SQL Value of %s = %x (%T), %v; reference NDR %x", e.m, vb, val, verr, refNDR)
			return false
		}
		// a driver may hold on to the value while the next one is produced
		val2, verr2 := lib.Value(e.g)
		vb2, _ := val2.([]byte)
		if verr2 != nil || !bytes.Equal(vb2, refNDR) || !bytes.Equal(vb, refNDR) {
			res.Fail("bytes-differ", "bytes-differ:sql-value-after-next-value", "after a second Value() of %s the first result is %x and the second %x (%v); reference NDR %x", e.m, vb, vb2, verr2, refNDR)
			return false
		}
		for i := range vb {
			vb[i] = 0xa5
		}
		if !bytes.Equal(vb2, refNDR) {
			res.Fail("bytes-differ", "sql-values-share-storage", "overwriting the first Value() result of %s changed the second to %x", e.m, vb2)
			return false
		}
		// wkb's untyped wrapper (Geom) must hand the driver the same bytes as
		// the typed one, and hold the geometry it was given
		if !s.Codec.EWKB {
			var gval any
			var gerr error
			var held geom.T
			if p := core.Guard(func() { gval, held, gerr = lib.GenericValue(e.g) }); p != "" {
				res.Fail("panic", "panic:value:"+core.PanicSite(p), "Value of the untyped wrapper panicked on %s: %s", e.m, p)
				return false
			}
			gb, _ := gval.([]byte)
			if gerr != nil || !bytes.Equal(gb, refNDR) || held != e.g {
				res.Fail("bytes-differ", "bytes-differ:sql-value-untyped", "untyped wrapper: Value of %s = %x (%T), %v, Geom() is the geometry given: %v; reference NDR %x", e.m, gb, gval, gerr, held == e.g, refNDR)
				return false
			}
			res.Count("probe:untyped-wrapper-value", 1)
		}
		// one wrapper, asked again after the geometry it holds has changed
		// (another SRID for EWKB, which the bytes carry)
		if s.Codec.EWKB {
			if vr := lib.Valuer(e.g); vr != nil {
				v1, verr1 := vr.Value()
				m2 := e.m.Clone()
				m2.S = (e.m.S + 1) % (1 << 32)
				if _, serr := geom.SetSRID(e.g, m2.S); serr == nil {
					ref2, _, rerr := refwkb.Encode(ndr, m2)
					v2, verr2 := vr.Value()
					b1, _ := v1.([]byte)
					b2, _ := v2.([]byte)
					if rerr == nil && (verr1 != nil || verr2 != nil || !bytes.Equal(b1, refNDR) || !bytes.Equal(b2, ref2)) {
						res.Fail("bytes-differ", "bytes-differ:sql-value-after-geometry-changed", "one wrapper of %s: Value() = %x (%v), then after SetSRID(%d) Value() = %x (%v); references %x and %x", e.m, b1, verr1, m2.S, b2, verr2, refNDR, ref2)
						return false
					}
					if _, serr := geom.SetSRID(e.g, e.m.S); serr != nil {
						panic(serr)
					}
				}
			}
		}
	}
	// writer failures
	bounds := []int{0}
	off := 0
	for _, c := range w.Calls {
		off += c.N
		bounds = append(bounds, off)
	}
	try := func(k int, short, transient bool) bool {
		fw := simio.NewWriter(simio.WritePlan{FailAt: k, Short: short, Transient: transient, ErrKind: ekind})
		var err error
		if p := core.Guard(func() { err = lib.Write(fw.With(wcap), e.g) }); p != "" {
			res.Fail("panic", "panic:write-fail:"+core.PanicSite(p), "Write panicked with writer failing at %d: %s", k, p)
			return false
		}
		res.Steps += len(fw.Calls)
		if fw.Fails == 0 {
			return true // offset beyond the encoding
		}
		*fired = true
		kind := "write-fail-sticky-whole"
		if transient {
			kind = "write-fail-transient"
		} else if short {
			kind = "write-fail-sticky-short"
		}
		res.Count(kind, 1)
		cls, _ := classAt(e.fields, k)
		res.Count("werr@"+cls, 1)
		log.Addf("write-fail g%d k=%d short=%v transient=%v calls=%d accepted=%d err=%v", gi, k, short, transient, len(fw.Calls), len(fw.Buf), err)
		if err == nil {
			res.Fail("writer-error-lost", "writer-error-lost:"+cls, "the writer failed at offset %d (field %s, short=%v, transient=%v) of %s %s but Write returned nil; accepted %d of %d bytes", k, cls, short, transient, s.Codec, e.m, len(fw.Buf), len(e.ref))
			return false
		}
		if !simio.Reports(err, ekind) {
			res.Fail("writer-error-replaced", "writer-error-replaced:"+cls, "the writer failed at offset %d with %q but Write reported %q", k, simio.ErrOf(ekind), err)
			return false
		}
		if !transient {
			if !bytes.HasPrefix(e.ref, fw.Buf) || len(fw.Buf) > k {
				res.Fail("bytes-differ", "bytes-differ:before-failure", "before failing at offset %d the writer accepted %x, not a prefix of the reference %x", k, fw.Buf, e.ref)
				return false
			}
			if short && len(fw.Buf) != k {
				res.Fail("bytes-differ", "bytes-differ:before-failure", "writer failing short at offset %d accepted %d bytes", k, len(fw.Buf))
				return false
			}
		}
		return true
	}
	if s.Mode == "enum" {
		offs := enumOffsets(res, len(e.ref), bounds)
		for _, k := range offs {
			if !try(k, true, false) || !try(k, false, false) || !try(k, false, true) {
				return false
			}
		}
	} else if s.WriteFail.On && s.WriteFail.Geom == gi {
		if !try(s.WriteFail.At, s.WriteFail.Short, s.WriteFail.Transient) {
			return false
		}
	}
	// whatever the writers did, the geometry is what it was and encodes as before
	if obs, oerr := mgeom.Observe(e.g); oerr != nil || mgeom.Diff(obs, e.m) != "" {
		res.Fail("argument-changed", "argument-changed:write", "after the writes (some into failing writers) the geometry is %s (%v), it was %s", obs, oerr, e.m)
		return false
	}
	if mb3, merr3 := lib.Marshal(e.g); merr3 != nil || !bytes.Equal(mb3, e.ref) {
		res.Fail("bytes-differ", "bytes-differ:marshal-after-failed-writes", "Marshal(%s) of %s after writes into failing writers = %x, %v; reference %x", s.Codec, e.m, mb3, merr3, e.ref)
		return false
	}
	return true
}

const enumCap = 768

// enumOffsets returns every offset in [0, n) for small n, otherwise all call
// boundaries plus evenly spread interior offsets.
func enumOffsets(res *core.Result, n int, bounds []int) []int {
	if n <= enumCap {
		out := make([]int, n)
		for i := range out {
			out[i] = i
		}
		return out
	}
	res.Count("probe:enum-capped", 1)
	seen := map[int]bool{}
	var out []int
	add := func(k int) {
		if k >= 0 && k < n && !seen[k] {
			seen[k] = true
			out = append(out, k)
		}
	}
	for _, b := range bounds {
		add(b)
		add(b - 1)
		add(b + 1)
	}
	for i := 0; i < 64; i++ {
		add(i * n / 64)
	}
	return out
}

func firstDiff(a, b []byte) int {
	for i := 0; i < len(a) && i < len(b); i++ {
		if a[i] != b[i] {
			return i
		}
	}
	if len(a) < len(b) {
		return len(a)
	}
	return len(b)
}

func firstDiffClass(e *enc, got []byte) string {
	c, _ := classAt(e.fields, firstDiff(got, e.ref))
	return c
}

func fbits(f float64) uint64 { return math.Float64bits(f) }

// readStream reads len(encs) geometries from stream through plan and checks
// each against its expectation and the exact consumption.
func readStream(res *core.Result, log *core.Log, lib wkbadapt.Lib, encs []*enc, stream []byte, plan simio.ReadPlan, fired *bool, what string) bool {
	r := simio.NewReader(stream, plan)
	cum := 0
	faultAt := -1
	faultKind := ""
	if plan.ErrAt >= 0 {
		faultAt, faultKind = plan.ErrAt, "read-error"
		if plan.ErrWithData {
			faultKind = "read-error-with-data"
		}
	}
	if plan.TruncAt >= 0 && plan.TruncAt < len(stream) && (faultAt < 0 || plan.TruncAt < faultAt) {
		faultAt, faultKind = plan.TruncAt, "read-truncate"
	}
	defer func() {
		res.Steps += len(r.Calls)
		res.Count("read-split", int64(r.Splits))
		res.Count("read-stall", int64(r.Stalls))
		res.Count("read-data+eof", int64(r.DataEOFs))
		if r.Splits+r.Stalls+r.DataEOFs+r.Errs+r.Truncs > 0 {
			*fired = true
		}
	}()
	for i, e := range encs {
		start := cum
		cum += len(e.ref)
		var g geom.T
		var err error
		if p := core.Guard(func() { g, err = lib.Read(r.With(rcap)) }); p != "" {
			if r.Runaway {
				res.Fail("runaway-reader", "runaway-reader", "Read (%s) went on calling the reader (%d calls for a %d-byte stream) although it kept refusing", what, len(r.Calls), len(stream))
				return false
			}
			res.Fail("panic", "panic:read:"+core.PanicSite(p), "Read panicked (%s) on geometry %d of stream %x: %s", what, i, stream, p)
			return false
		}
		log.Addf("read %s g%d pos=%d calls=%d err=%v", what, i, r.Pos(), len(r.Calls), err)
		if r.Runaway {
			res.Fail("runaway-reader", "runaway-reader", "Read (%s) called the reader more than %d times for a %d-byte stream", what, len(r.Calls), len(stream))
			return false
		}
		if g != nil && err != nil {
			res.Fail("geometry-and-error", "geometry-and-error", "Read (%s) returned both a geometry and error %v", what, err)
			return false
		}
		if g == nil && err == nil {
			res.Fail("nil-nil", "nil-nil", "Read (%s) returned neither a geometry nor an error", what)
			return false
		}
		incomplete := faultAt >= 0 && faultAt < cum
		if incomplete {
			// the fault hits before this geometry is complete: it must fail
			cls, _ := classAt(e.fields, faultAt-start)
			if faultAt >= start {
				res.Count(faultKind, 1)
				res.Count(strings.TrimPrefix(faultKind, "read-")+"@"+cls, 1)
				if cls == refwkb.FCount {
					res.Count("probe:error-inside-count", 1)
				}
			}
			if err == nil {
				res.Fail("wrong-geometry-after-fault", "wrong-geometry-after-fault:"+faultKind+":"+cls, "the reader %s at stream offset %d (geometry %d spans %d..%d, field %s) but Read (%s) returned a geometry: %s", faultKind, faultAt, i, start, cum, cls, what, describe(g))
				return false
			}
			return true
		}
		if err != nil && plan.ErrWithData && plan.ErrAt == cum {
			// the error arrived in the same call as the last byte of this
			// geometry: the data was complete, reporting the error is legal
			res.Count("read-error-with-data", 1)
			return true
		}
		if err != nil {
			sig := "read-failed"
			if r.Stalls > 0 {
				sig = "read-failed-after-stall"
			} else if r.Splits > 0 {
				sig = "read-failed-after-split"
			}
			res.Fail("read-failed", sig, "Read (%s) of geometry %d failed with %q although the bytes %d..%d were delivered intact (stalls=%d splits=%d, calls=%s); model %s", what, i, err, start, cum, r.Stalls, r.Splits, callsString(r.Calls), e.m)
			return false
		}
		obs, oerr := mgeom.Observe(g)
		if oerr != nil {
			res.Fail("ill-formed", "ill-formed:read", "Read (%s) returned an ill-formed geometry: %v", what, oerr)
			return false
		}
		if d := mgeom.Diff(obs, e.expect); d != "" {
			sig := "decoded-differs"
			if r.Stalls > 0 {
				sig = "decoded-differs-after-stall"
			}
			res.Fail("decoded-differs", sig, "Read (%s) of geometry %d observed %s, expected %s: %s", what, i, obs, e.expect, d)
			return false
		}
		if r.Pos() != cum {
			res.Fail("consumed-wrong", "consumed-wrong", "after Read (%s) of geometry %d the reader stands at %d, the geometry ends at %d (stream %d bytes)", what, i, r.Pos(), cum, len(stream))
			return false
		}
		e.hold(g)
	}
	return true
}

// readBufio reads the same concatenated stream through a *bufio.Reader the
// caller put in front of its source - a reader that also offers Peek, Discard
// and ReadByte - with a buffer that may be much smaller than a coordinate
// array. What counts as consumed is what the bufio.Reader no longer holds.
func readBufio(res *core.Result, lib wkbadapt.Lib, encs []*enc, stream []byte) bool {
	size := []int{16, 24, 64, 1000, 4095, 4096, 8192}[len(stream)%7]
	src := bytes.NewReader(stream)
	br := bufio.NewReaderSize(src, size)
	cum := 0
	for i, e := range encs {
		cum += len(e.ref)
		var g geom.T
		var err error
		if p := core.Guard(func() { g, err = lib.Read(br) }); p != "" {
			res.Fail("panic", "panic:read:"+core.PanicSite(p), "Read from a bufio.Reader of %d bytes panicked on geometry %d: %s", size, i, p)
			return false
		}
		if err != nil || g == nil {
			res.Fail("read-failed", "read-failed:bufio.Reader", "Read of geometry %d from a bufio.Reader of %d bytes failed: %v; model %s", i, size, err, e.m)
			return false
		}
		obs, oerr := mgeom.Observe(g)
		if oerr != nil || mgeom.Diff(obs, e.expect) != "" {
			res.Fail("decoded-differs", "decoded-differs:bufio.Reader", "Read of geometry %d from a bufio.Reader of %d bytes observed %s (%v), expected %s", i, size, obs, oerr, e.expect)
			return false
		}
		if got := len(stream) - src.Len() - br.Buffered(); got != cum {
			res.Fail("consumed-wrong", "consumed-wrong:bufio.Reader", "after Read of geometry %d the bufio.Reader (%d bytes) stands at %d, the geometry ends at %d", i, size, got, cum)
			return false
		}
		e.hold(g)
	}
	res.Count("probe:read-through-bufio.Reader", 1)
	return true
}

// readBytesBuffer reads the same concatenated stream from a real *bytes.Buffer
// (which offers Len, Next, ReadByte, ... beyond io.Reader): every Read must
// leave the buffer exactly at the end of its geometry.
func readBytesBuffer(res *core.Result, lib wkbadapt.Lib, encs []*enc, stream []byte) bool {
	bb := bytes.NewBuffer(append([]byte(nil), stream...))
	cum := 0
	for i, e := range encs {
		cum += len(e.ref)
		var g geom.T
		var err error
		if p := core.Guard(func() { g, err = lib.Read(bb) }); p != "" {
			res.Fail("panic", "panic:read:"+core.PanicSite(p), "Read from a bytes.Buffer panicked on geometry %d: %s", i, p)
			return false
		}
		if err != nil || g == nil {
			res.Fail("read-failed", "read-failed:bytes.Buffer", "Read of geometry %d from a bytes.Buffer failed: %v; model %s", i, err, e.m)
			return false
		}
		obs, oerr := mgeom.Observe(g)
		if oerr != nil || mgeom.Diff(obs, e.expect) != "" {
			res.Fail("decoded-differs", "decoded-differs:bytes.Buffer", "Read of geometry %d from a bytes.Buffer observed %s (%v), expected %s", i, obs, oerr, e.expect)
			return false
		}
		if got := len(stream) - bb.Len(); got != cum {
			res.Fail("consumed-wrong", "consumed-wrong:bytes.Buffer", "after Read of geometry %d the bytes.Buffer stands at %d, the geometry ends at %d", i, got, cum)
			return false
		}
		e.hold(g)
	}
	return true
}

func callsString(cs []simio.Call) string {
	var b strings.Builder
	for i, c := range cs {
		if i >= 12 {
			b.WriteString("...")
			break
		}
		fmt.Fprintf(&b, "(%d->%d,%s)", c.Len, c.N, c.Err)
	}
	return b.String()
}

func describe(g geom.T) string {
	m, err := mgeom.Observe(g)
	if err != nil {
		return fmt.Sprintf("%T (%v)", g, err)
	}
	return m.String()
}

// enumReads tries every split, stall, error and truncation position for one
// encoding.
func enumReads(res *core.Result, log *core.Log, lib wkbadapt.Lib, s *Scenario, e *enc, junk []byte, fired *bool) bool {
	stream := append(append([]byte{}, e.ref...), junk...)
	one := []*enc{e}
	// all one-byte reads
	p := simio.NoFault()
	p.Default = 1
	if !readStream(res, log, lib, one, stream, p, fired, "1-byte reads") {
		return false
	}
	// everything at once, data together with EOF
	p = simio.NoFault()
	p.Dirs = []simio.Dir{{K: simio.DataEOF}}
	if !readStream(res, log, lib, one, e.ref, p, fired, "data+EOF") {
		return false
	}
	offs := enumOffsets(res, len(e.ref), nil)
	for _, k := range offs {
		cls, foff := classAt(e.fields, k)
		// split exactly at k
		if k > 0 {
			p = simio.NoFault()
			p.Dirs = []simio.Dir{{K: simio.Chunk, N: k}}
			if cls == refwkb.FType && k > foff {
				res.Count("probe:split-inside-type-word", 1)
			}
			if !readStream(res, log, lib, one, stream, p, fired, fmt.Sprintf("split at %d", k)) {
				return false
			}
		}
		// stall before offset k
		p = simio.NoFault()
		if k > 0 {
			p.Dirs = []simio.Dir{{K: simio.Chunk, N: k}}
		}
		p.Dirs = append(p.Dirs, simio.Dir{K: simio.Stall})
		if k == 0 {
			res.Count("probe:stall-before-byte-order", 1)
		}
		if !readStream(res, log, lib, one, stream, p, fired, fmt.Sprintf("stall before %d", k)) {
			return false
		}
		// error at k, alone and together with data
		for _, with := range []bool{false, true} {
			p = simio.NoFault()
			p.ErrAt, p.ErrWithData, p.ErrKind = k, with, ekind
			if !readStream(res, log, lib, one, stream, p, fired, fmt.Sprintf("error at %d with-data=%v", k, with)) {
				return false
			}
		}
		// truncation at k
		p = simio.NoFault()
		p.TruncAt = k
		if !readStream(res, log, lib, one, stream, p, fired, fmt.Sprintf("truncated at %d", k)) {
			return false
		}
	}
	// an error exactly at the end of the geometry must not matter
	p = simio.NoFault()
	p.ErrAt, p.ErrKind = len(e.ref), ekind
	if !readStream(res, log, lib, one, stream, p, fired, "error right after the geometry") {
		return false
	}
	return true
}

// wrappers checks Unmarshal, hex Decode and the SQL scanners on the reference
// bytes.
func wrappers(res *core.Result, log *core.Log, lib wkbadapt.Lib, s *Scenario, e *enc) bool {
	check := func(what string, g geom.T, err error) bool {
		if err != nil || g == nil {
			res.Fail("wrapper-failed", "wrapper-failed:"+what, "%s of the reference encoding of %s failed: %v", what, e.m, err)
			return false
		}
		obs, oerr := mgeom.Observe(g)
		if oerr != nil {
			res.Fail("ill-formed", "ill-formed:"+what, "%s returned an ill-formed geometry: %v", what, oerr)
			return false
		}
		if d := mgeom.Diff(obs, e.expect); d != "" {
			res.Fail("decoded-differs", "decoded-differs:"+what, "%s observed %s, expected %s: %s", what, obs, e.expect, d)
			return false
		}
		e.hold(g)
		return true
	}
	var g geom.T
	var err error
	buf := append([]byte(nil), e.ref...)
	if p := core.Guard(func() { g, err = lib.Unmarshal(buf) }); p != "" {
		res.Fail("panic", "panic:unmarshal:"+core.PanicSite(p), "Unmarshal panicked: %s", p)
		return false
	}
	if !bytes.Equal(buf, e.ref) {
		res.Fail("input-modified", "input-modified:Unmarshal", "Unmarshal changed its input bytes from %x to %x", e.ref, buf)
		return false
	}
	if !check("Unmarshal", g, err) {
		return false
	}
	// the input buffer is the caller's again after the call: reused for
	// something else, the decoded geometry must not change
	for i := range buf {
		buf[i] ^= 0x5a
	}
	if obs, oerr := mgeom.Observe(g); oerr != nil || mgeom.Diff(obs, e.expect) != "" {
		res.Fail("result-aliases-input", "result-aliases-input:Unmarshal", "the geometry Unmarshal returned changed when the caller reused the input buffer: now %s (%v), expected %s", obs, oerr, e.expect)
		return false
	}
	hx := hex.EncodeToString(e.ref)
	if p := core.Guard(func() { g, err = lib.HexDecode(hx) }); p != "" {
		res.Fail("panic", "panic:hexdecode:"+core.PanicSite(p), "hex Decode panicked: %s", p)
		return false
	}
	if !check("hex Decode", g, err) {
		return false
	}
	// PostGIS prints hex in upper case
	if p := core.Guard(func() { g, err = lib.HexDecode(strings.ToUpper(hx)) }); p != "" {
		res.Fail("panic", "panic:hexdecode:"+core.PanicSite(p), "hex Decode panicked: %s", p)
		return false
	}
	if !check("hex Decode (upper case)", g, err) {
		return false
	}
	if !lib.HasSQL() {
		return true
	}
	// The SQL scanners take the NDR or XDR bytes alike.
	// a wrapper that already held another row (an empty geometry of its kind,
	// with another SRID where the codec has one)
	prime := &mgeom.Geom{T: e.m.T, L: 1}
	if e.m.T == mgeom.Pt {
		prime = &mgeom.Geom{T: mgeom.Pt, L: 1, P: [][][]mgeom.Coord{{{{1, 2}}}}}
	}
	if s.Codec.EWKB {
		prime.S = 7777
	}
	if pref, _, perr := refwkb.Encode(s.Codec, prime.Norm()); perr == nil {
		if sc := lib.NewScanner(e.m.T); sc != nil {
			var g0 geom.T
			if gp, err0 := sc.Scan(pref); err0 == nil {
				var firstRow *mgeom.Geom
				if gp != nil {
					firstRow, _ = mgeom.Observe(gp)
				}
				if p := core.Guard(func() { g0, err = sc.Scan(append([]byte{}, e.ref...)) }); p != "" {
					res.Fail("panic", "panic:scan:"+core.PanicSite(p), "the second Scan into one wrapper panicked: %s", p)
					return false
				}
				res.Count("probe:wrapper-scanned-twice", 1)
				if !check("second Scan into one "+e.m.T+" wrapper", g0, err) {
					return false
				}
				// the row scanned first was handed to the caller: it stays
				// what it was (the loop "scan, keep, scan the next row")
				if firstRow != nil {
					if obs, oerr := mgeom.Observe(gp); oerr != nil || mgeom.Diff(obs, firstRow) != "" {
						res.Fail("result-aliases-input", "earlier-scan-result-changed:"+e.m.T, "the geometry obtained from the first Scan of a %s wrapper changed when the wrapper scanned the next row: now %s (%v), it was %s", e.m.T, obs, oerr, firstRow)
						return false
					}
				}
			}
		}
	}
	sbuf := append([]byte{}, e.ref...)
	if p := core.Guard(func() { g, err = lib.Scan(e.m.T, sbuf) }); p != "" {
		res.Fail("panic", "panic:scan:"+core.PanicSite(p), "Scan panicked: %s", p)
		return false
	}
	if !check("Scan into "+e.m.T+" wrapper", g, err) {
		return false
	}
	// database/sql only lends the bytes for the duration of Scan
	for i := range sbuf {
		sbuf[i] ^= 0x5a
	}
	if obs, oerr := mgeom.Observe(g); oerr != nil || mgeom.Diff(obs, e.expect) != "" {
		res.Fail("result-aliases-input", "result-aliases-input:Scan", "the geometry a wrapper holds after Scan changed when the driver reused its buffer: now %s (%v), expected %s", obs, oerr, e.expect)
		return false
	}
	if !s.Codec.EWKB {
		if p := core.Guard(func() { g, err = lib.Scan("Geom", append([]byte{}, e.ref...)) }); p != "" {
			res.Fail("panic", "panic:scan:"+core.PanicSite(p), "Scan panicked: %s", p)
			return false
		}
		if !check("Scan into Geom wrapper", g, err) {
			return false
		}
	}
	if s.WrongKind != "" && s.WrongKind != e.m.T {
		if p := core.Guard(func() { g, err = lib.Scan(s.WrongKind, append([]byte{}, e.ref...)) }); p != "" {
			res.Fail("panic", "panic:scan:"+core.PanicSite(p), "Scan into the wrong wrapper panicked: %s", p)
			return false
		}
		log.Addf("scan %s into %s wrapper: err=%v", e.m.T, s.WrongKind, err)
		if err == nil {
			res.Fail("wrong-wrapper-accepted", "wrong-wrapper-accepted:"+s.WrongKind, "scanning the encoding of a %s into a %s wrapper reported no error", e.m.T, s.WrongKind)
			return false
		}
	}
	if p := core.Guard(func() { g, err = lib.Scan(e.m.T, hx) }); p != "" {
		res.Fail("panic", "panic:scan:"+core.PanicSite(p), "Scan of a string panicked: %s", p)
		return false
	}
	if err == nil {
		res.Fail("non-bytes-accepted", "non-bytes-accepted", "Scan of a string value reported no error")
		return false
	}
	// SQL NULL into a wrapper that held this geometry: afterwards the wrapper
	// holds nothing and hands NULL back
	if s.Codec.EWKB && e.g != nil {
		var valid bool
		var val any
		var nerr error
		if p := core.Guard(func() { valid, val, nerr = wkbadapt.NullRoundTrip(e.m.T, e.g) }); p != "" {
			res.Fail("panic", "panic:scan:"+core.PanicSite(p), "Scan(nil) / Value panicked: %s", p)
			return false
		}
		if nerr != nil || valid || val != nil {
			res.Fail("null-not-kept", "null-not-kept:"+e.m.T, "after Scan(nil) into a %s wrapper that held a geometry: Valid() = %v, Value() = %v, error %v (want invalid, nil, no error)", e.m.T, valid, val, nerr)
			return false
		}
		res.Count("probe:null-through-wrapper", 1)
	}
	// the error a caller gets can be rendered (twice, to the same text)
	var m1, m2 string
	if p := core.Guard(func() { m1, m2 = err.Error(), err.Error() }); p != "" || m1 == "" || m1 != m2 {
		res.Fail("panic", "panic:error-render:"+core.PanicSite(p), "rendering the error of a refused Scan: panic %q, texts %q and %q", p, m1, m2)
		return false
	}
	return true
}

// ValidGeom validates a geometry tree of a scenario (shared with C04).
func ValidGeom(g *mgeom.Geom) error {
	if g == nil {
		return fmt.Errorf("nil geometry")
	}
	return valid(g, 0)
}
