// Package prng is the only source of randomness in the simulator: a
// splitmix64-seeded xoshiro256** generator, independent of math/rand so that
// scenario generation is stable across Go releases.
package prng

import "math"

// SplitMix64 advances x and returns the next splitmix64 output.
func SplitMix64(x *uint64) uint64 {
	*x += 0x9e3779b97f4a7c15
	z := *x
	z = (z ^ (z >> 30)) * 0xbf58476d1ce4e5b9
	z = (z ^ (z >> 27)) * 0x94d049bb133111eb
	return z ^ (z >> 31)
}

// RunSeed derives the seed of run i of a batch started with the given seed.
func RunSeed(seed uint64, i uint64) uint64 {
	x := seed*0xd1342543de82ef95 + i*0x9e3779b97f4a7c15 + 0x2545f4914f6cdd1d
	SplitMix64(&x)
	return SplitMix64(&x)
}

// Rand is a xoshiro256** generator.
type Rand struct{ s [4]uint64 }

// New returns a generator seeded from seed through splitmix64.
func New(seed uint64) *Rand {
	r := &Rand{}
	x := seed
	for i := range r.s {
		r.s[i] = SplitMix64(&x)
	}
	return r
}

func rotl(x uint64, k uint) uint64 { return (x << k) | (x >> (64 - k)) }

// Uint64 returns the next 64 random bits.
func (r *Rand) Uint64() uint64 {
	res := rotl(r.s[1]*5, 7) * 9
	t := r.s[1] << 17
	r.s[2] ^= r.s[0]
	r.s[3] ^= r.s[1]
	r.s[1] ^= r.s[2]
	r.s[0] ^= r.s[3]
	r.s[2] ^= t
	r.s[3] = rotl(r.s[3], 45)
	return res
}

// Intn returns a value in [0, n). n must be > 0.
func (r *Rand) Intn(n int) int {
	if n <= 0 {
		panic("prng: Intn with n <= 0")
	}
	return int(r.Uint64() % uint64(n))
}

// Range returns a value in [lo, hi].
func (r *Rand) Range(lo, hi int) int { return lo + r.Intn(hi-lo+1) }

// Float returns a value in [0, 1).
func (r *Rand) Float() float64 { return float64(r.Uint64()>>11) / (1 << 53) }

// Chance returns true with probability p.
func (r *Rand) Chance(p float64) bool { return r.Float() < p }

// Pick returns one of the weights' indexes with probability proportional to
// its weight.
func (r *Rand) Pick(weights ...int) int {
	total := 0
	for _, w := range weights {
		total += w
	}
	if total <= 0 {
		return 0
	}
	x := r.Intn(total)
	for i, w := range weights {
		if x < w {
			return i
		}
		x -= w
	}
	return len(weights) - 1
}

// Perm returns a permutation of [0, n).
func (r *Rand) Perm(n int) []int {
	p := make([]int, n)
	for i := range p {
		p[i] = i
	}
	for i := n - 1; i > 0; i-- {
		j := r.Intn(i + 1)
		p[i], p[j] = p[j], p[i]
	}
	return p
}

// Fork returns an independent generator derived from r.
func (r *Rand) Fork() *Rand { return New(r.Uint64()) }

// SmallFloat returns a small integer-valued or simple fractional float.
func (r *Rand) SmallFloat() float64 {
	switch r.Intn(4) {
	case 0:
		return float64(r.Range(-5, 5))
	case 1:
		return float64(r.Range(-1000, 1000))
	case 2:
		return float64(r.Range(-100000, 100000)) / 8
	default:
		return float64(r.Range(-20, 20)) / 2
	}
}

// notable finite values: where number formatting changes its form (1e21, 1e-7),
// where float64 stops holding every integer (2^53), extremes, powers of two
// that matter to integer conversions, values that round up into the next
// digit position, and the limits of geographic coordinates.
var notable = []float64{
	math.MaxFloat64, math.SmallestNonzeroFloat64, 2.2250738585072014e-308,
	9007199254740992, 9007199254740994, 9007199254740991, 1e15, 1e16, 123456789012345678,
	1e20, 999999999999999900000, 1e21, 1e22, 1e100, 1e-5, 1e-6, 1e-7, 0.000001234, 1e-100,
	4294967296, 4294967295, 2147483648, 2147483647, 65536, 65535, 256, 255, 9223372036854775807, 18446744073709551615,
	0.1, 0.2, 0.30000000000000004, 1.0 / 3, 2.0 / 3, 123456789.12345679,
	0.5, 1.5, 2.5, 0.05, 0.15, 0.95, 0.995, 0.9995, 9.5, 9.95, 99.5, 99.95, 999.9999999, 0.49999999999999994, 0.9999999999999999,
	180, 179.99999999, 90, 89.99999999, 360, 59.9999, 60, 1, 10, 100, 1000,
}

// NotableFloat returns one of the notable finite values with a random sign.
func (r *Rand) NotableFloat() float64 {
	v := notable[r.Intn(len(notable))]
	if r.Intn(2) == 0 {
		v = -v
	}
	return v
}

// AnyFloatBits returns a float64 drawn from all bit patterns with a bias to
// special values (NaN payloads, infinities, negative zero, denormals).
func (r *Rand) AnyFloatBits() float64 {
	switch r.Intn(10) {
	case 0:
		return math.Float64frombits(r.Uint64())
	case 1:
		return math.Float64frombits(0x7ff8000000000000) // canonical quiet NaN
	case 2:
		return math.Float64frombits(0x7ff0000000000000 | (r.Uint64() & 0x000fffffffffffff) | 1)
	case 3:
		return math.Inf(1 - 2*r.Intn(2))
	case 4:
		return math.Copysign(0, -1)
	case 5:
		return math.Float64frombits(r.Uint64() & 0x000fffffffffffff) // denormal
	case 6:
		return math.Float64frombits(0xfff8000000000000 | (r.Uint64() & 0xffff))
	case 7:
		return r.NotableFloat()
	default:
		return r.SmallFloat()
	}
}
