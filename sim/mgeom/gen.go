package mgeom

import (
	"math"

	"verif/sim/prng"
)

// GenCfg is the per-run (swarm) configuration of the geometry generator.
type GenCfg struct {
	Types        []string // allowed types
	Layouts      []int    // allowed layout numbers
	MaxCoords    int      // cap on coordinates per innermost list
	MaxParts     int      // cap on parts per level
	MaxDepth     int      // collection nesting
	PEmpty       float64  // probability that a component is empty
	FloatMode    int      // 0 small, 1 any bits, 2 finite (no NaN/Inf), 3 finite and moderate (|v| in [2^-40, 2^40] or small: products cannot overflow), 4 any value but NaN
	SRIDMode     int      // 0 none, 1 interesting values
	MixLayout    bool     // collection members may differ in layout
	ClosedRings  bool     // rings are closed with >= 4 points when non-empty
	ShareMembers bool     // a collection may hold one member object twice (for properties that only read what they built)
	ExactParts   int      // when > 0: most part lists have exactly this many parts (count classes around powers of two)
	ExactCoords  int      // when > 0: most coordinate lists have exactly this many coordinates
}

// SwarmCfg draws a generator configuration.
func SwarmCfg(r *prng.Rand, layouts []int) GenCfg {
	c := GenCfg{
		Types:     AllTypes,
		Layouts:   layouts,
		MaxCoords: []int{1, 2, 3, 5, 8, 20}[r.Intn(6)],
		MaxParts:  []int{1, 2, 3, 4, 6}[r.Intn(5)],
		MaxDepth:  r.Range(0, 3),
		PEmpty:    []float64{0, 0.1, 0.3, 0.6}[r.Intn(4)],
		FloatMode: r.Intn(3),
		SRIDMode:  r.Intn(2),
		MixLayout: r.Chance(0.5),
	}
	// count classes: thresholds in the library (pooled rows, unrolled or
	// block-wise loops) sit at or next to powers of two
	classes := []int{7, 8, 9, 15, 16, 17, 31, 32, 33}
	switch r.Pick(89, 6, 5) {
	case 1:
		c.ExactParts = classes[r.Intn(len(classes))]
		c.MaxParts = c.ExactParts
		c.PEmpty /= 4
		c.MaxCoords = min(c.MaxCoords, 3)
		c.MaxDepth = min(c.MaxDepth, 1)
	case 2:
		c.ExactCoords = append(classes, 63, 64, 65)[r.Intn(len(classes)+3)]
		c.MaxCoords = c.ExactCoords
		c.MaxParts = min(c.MaxParts, 2)
		c.MaxDepth = min(c.MaxDepth, 1)
	}
	if r.Chance(0.3) {
		// restrict the type set for this run
		n := r.Range(1, 3)
		var ts []string
		for i := 0; i < n; i++ {
			ts = append(ts, AllTypes[r.Intn(len(AllTypes))])
		}
		c.Types = ts
	}
	return c
}

func (c GenCfg) float(r *prng.Rand) F {
	switch c.FloatMode {
	case 1:
		return F(r.AnyFloatBits())
	case 2:
		for {
			v := r.AnyFloatBits()
			if !math.IsNaN(v) && !math.IsInf(v, 0) {
				return F(v)
			}
		}
	case 4: // everything that is ordered: any value but NaN, infinities included
		for {
			v := r.AnyFloatBits()
			if !math.IsNaN(v) {
				return F(v)
			}
		}
	}
	if c.FloatMode == 3 && r.Chance(0.6) {
		// a random mantissa at a moderate exponent: sums and products of such
		// values round (they are not dyadic fractions of small integers) and
		// cannot overflow
		m := math.Float64frombits(0x3ff0000000000000 | r.Uint64()&0x000fffffffffffff) // [1, 2)
		v := math.Ldexp(m, r.Range(-40, 40))
		if r.Chance(0.5) {
			v = -v
		}
		return F(v)
	}
	return F(r.SmallFloat())
}

// canonNaN is the bit pattern the binary formats use for the ordinates of an
// empty point.
const canonNaN = 0x7ff8000000000000

func (c GenCfg) coord(r *prng.Rand, l int) Coord {
	out := make(Coord, Stride(l))
	for i := range out {
		out[i] = c.float(r)
	}
	if c.FloatMode == 1 && len(out) > 0 && r.Chance(0.04) {
		// coordinates around the empty-point convention: every ordinate the
		// canonical NaN; only X and Y; every ordinate a NaN of another payload
		// or sign; all but the last the canonical NaN
		switch r.Intn(4) {
		case 0:
			for i := range out {
				out[i] = F(math.Float64frombits(canonNaN))
			}
		case 1:
			out[0], out[1] = F(math.Float64frombits(canonNaN)), F(math.Float64frombits(canonNaN))
		case 2:
			for i := range out {
				out[i] = F(math.Float64frombits([]uint64{0x7ff8000000000001, 0xfff8000000000000, 0x7ff4000000000000, canonNaN}[r.Intn(4)]))
			}
		case 3:
			for i := range out[:len(out)-1] {
				out[i] = F(math.Float64frombits(canonNaN))
			}
		}
	}
	return out
}

func (c GenCfg) coords(r *prng.Rand, l int, ring bool) []Coord {
	if r.Chance(c.PEmpty) {
		return []Coord{}
	}
	n := r.Range(1, max(1, c.MaxCoords))
	if c.ExactCoords > 0 && c.ExactCoords <= c.MaxCoords && r.Chance(0.5) {
		n = c.ExactCoords
	}
	out := make([]Coord, 0, n+1)
	for i := 0; i < n; i++ {
		out = append(out, c.coord(r, l))
	}
	if ring && c.ClosedRings {
		for len(out) < 3 {
			out = append(out, c.coord(r, l))
		}
		last := append(Coord(nil), out[0]...)
		if r.Chance(0.08) {
			// closed but for rounding noise: one to four representable values
			// off in some ordinates, or a zero of the other sign (an exact
			// operation must not mistake this for closed)
			for i := range last {
				if !r.Chance(0.6) {
					continue
				}
				v := float64(last[i])
				switch {
				case math.IsNaN(v) || math.IsInf(v, 0):
				case v == 0 && r.Chance(0.5):
					last[i] = F(math.Copysign(0, -1))
					if math.Signbit(v) {
						last[i] = 0
					}
				default:
					dir := math.Inf(1 - 2*r.Intn(2))
					for k := r.Range(1, 4); k > 0; k-- {
						v = math.Nextafter(v, dir)
					}
					last[i] = F(v)
				}
			}
		} else if len(last) > 2 && r.Chance(0.2) {
			// closed where it matters (X and Y); height or measure of the
			// closing coordinate are its own (a measure runs on along the ring)
			for i := 2; i < len(last); i++ {
				last[i] = c.float(r)
			}
		}
		out = append(out, last)
	}
	return out
}

// Small is small, exported.
func (c GenCfg) Small() GenCfg { return c.small() }

// ManyParts returns a geometry of type t (MultiPoint, Polygon,
// MultiLineString or MultiPolygon) with exactly k small parts.
func (c GenCfg) ManyParts(r *prng.Rand, t string, l int, k int) *Geom {
	c = c.small()
	part := func(ring bool) []Coord {
		if r.Chance(0.1) {
			return []Coord{}
		}
		c.ClosedRings = ring
		return c.coords(r, l, ring)
	}
	switch t {
	case MPt:
		pts := make([][]Coord, k)
		for i := range pts {
			pts[i] = []Coord{c.coord(r, l)}
		}
		return &Geom{T: MPt, L: l, P: [][][]Coord{pts}}
	case Pg, MLS:
		ps := make([][]Coord, k)
		for i := range ps {
			ps[i] = part(t == Pg)
		}
		return &Geom{T: t, L: l, P: [][][]Coord{ps}}
	}
	pgs := make([][][]Coord, k)
	for i := range pgs {
		pgs[i] = [][]Coord{part(true)}
	}
	return &Geom{T: MPg, L: l, P: pgs}
}

// small is the configuration for the levels below the one a count class
// applies to.
func (c GenCfg) small() GenCfg {
	c.ExactParts, c.ExactCoords = 0, 0
	c.MaxParts = min(c.MaxParts, 2)
	c.MaxCoords = min(c.MaxCoords, 3)
	return c
}

func (c GenCfg) nparts(r *prng.Rand) int {
	if r.Chance(c.PEmpty / 2) {
		return 0
	}
	if c.ExactParts > 0 && c.ExactParts <= c.MaxParts && r.Chance(0.6) {
		return c.ExactParts
	}
	return r.Range(1, max(1, c.MaxParts))
}

// SRID draws an SRID biased to boundary values of the 32-bit field.
func SRID(r *prng.Rand) int {
	switch r.Intn(8) {
	case 0:
		return 1
	case 1:
		return 4326
	case 2:
		return 1<<31 - 1
	case 3:
		return 1 << 31
	case 4:
		return 1<<32 - 1
	case 5:
		return int(r.Uint64() & 0xffffffff)
	default:
		return 0
	}
}

// Gen draws one geometry model of type t and layout l.
func (c GenCfg) Gen(r *prng.Rand, t string, l int, depth int) *Geom {
	m := &Geom{T: t, L: l, How: r.Intn(6)}
	switch t {
	case Pt:
		if r.Chance(c.PEmpty) {
			m.P = [][][]Coord{{{}}}
		} else {
			m.P = [][][]Coord{{{c.coord(r, l)}}}
		}
	case LS, LR:
		m.P = [][][]Coord{{c.coords(r, l, t == LR)}}
	case MPt:
		n := c.nparts(r)
		parts := make([][]Coord, 0, n)
		for i := 0; i < n; i++ {
			if r.Chance(c.PEmpty) {
				parts = append(parts, []Coord{})
			} else {
				parts = append(parts, []Coord{c.coord(r, l)})
			}
		}
		m.P = [][][]Coord{parts}
	case Pg, MLS:
		n := c.nparts(r)
		parts := make([][]Coord, 0, n)
		for i := 0; i < n; i++ {
			parts = append(parts, c.coords(r, l, t == Pg))
		}
		m.P = [][][]Coord{parts}
	case MPg:
		n := c.nparts(r)
		m.P = make([][][]Coord, 0, n)
		in := c
		if c.ExactParts > 0 {
			// a count class applies at one level: many polygons of few rings,
			// or few polygons of many rings
			if r.Chance(0.5) {
				in = c.small()
			} else {
				n = min(n, 2)
			}
		}
		for i := 0; i < n; i++ {
			k := in.nparts(r)
			rings := make([][]Coord, 0, k)
			for j := 0; j < k; j++ {
				rings = append(rings, c.coords(r, l, true))
			}
			m.P = append(m.P, rings)
		}
	case GC:
		n := c.nparts(r)
		if depth >= c.MaxDepth {
			n = min(n, 2)
		}
		in := c
		if c.ExactParts > 0 || c.ExactCoords > 0 {
			// a count class applies at one level: many small members, or few
			// members that are large themselves
			if c.ExactParts > 0 && r.Chance(0.5) {
				in = c.small()
			} else {
				n = min(n, 2)
			}
		}
		for i := 0; i < n; i++ {
			ct := c.Types[r.Intn(len(c.Types))]
			if ct == GC && depth >= c.MaxDepth {
				ct = []string{Pt, LS, Pg, MPt, MLS, MPg}[r.Intn(6)]
			}
			cl := l
			if c.MixLayout && r.Chance(0.4) {
				cl = c.Layouts[r.Intn(len(c.Layouts))]
			}
			if c.ShareMembers && len(m.G) > 0 && r.Chance(0.08) {
				k := 1 + r.Intn(len(m.G))
				dup := m.G[k-1].Clone()
				dup.Same = k
				m.G = append(m.G, dup)
				continue
			}
			m.G = append(m.G, in.Gen(r, ct, cl, depth+1))
		}
		// A fixed layout is only legal when every member has it.
		same := true
		for _, g := range m.G {
			if g.EffLayout() != l {
				same = false
			}
		}
		if same && r.Chance(0.5) {
			m.Fixed = true
		}
		if !m.Fixed {
			m.L = m.EffLayout()
		}
	}
	return m
}

// Big returns a LineString, MultiPoint or one-ring Polygon of layout l whose
// coordinate array holds about the given number of float64s (block sizes of
// chunked or pooled I/O paths: 256, 512, 1024, ... and their neighbours).
func (c GenCfg) Big(r *prng.Rand, l int) *Geom {
	st := Stride(l)
	floats := []int{256, 512, 1024, 2048, 4096}[r.Intn(5)] + []int{-st, 0, 0, st}[r.Intn(4)]
	n := floats / st
	cs := make([]Coord, n)
	for i := range cs {
		cs[i] = c.coord(r, l)
	}
	switch r.Intn(5) {
	case 0:
		return &Geom{T: LS, L: l, P: [][][]Coord{{cs}}}
	case 1:
		pts := make([][]Coord, n)
		for i := range pts {
			pts[i] = []Coord{cs[i]}
		}
		return &Geom{T: MPt, L: l, P: [][][]Coord{pts}}
	case 2, 3:
		// many small parts: part counts around 255/256 (a count kept in a byte)
		// and 300; rings of a polygon, lines, or polygons of one ring
		k := []int{254, 255, 256, 257, 300}[r.Intn(5)]
		full := 0.9
		if r.Chance(0.08) {
			// a count kept in 16 bits, or a table grown in steps of 2^16
			k = []int{65535, 65536, 65537, 65600}[r.Intn(4)]
			full = 0.02
		}
		parts := make([][]Coord, k)
		for i := range parts {
			if r.Chance(full) {
				parts[i] = []Coord{cs[i%n], cs[(i+1)%n]}
			} else {
				parts[i] = []Coord{}
			}
		}
		switch r.Intn(3) {
		case 0:
			return &Geom{T: Pg, L: l, P: [][][]Coord{parts}}
		case 1:
			return &Geom{T: MLS, L: l, P: [][][]Coord{parts}}
		}
		pgs := make([][][]Coord, k)
		for i := range pgs {
			pgs[i] = [][]Coord{parts[i]}
		}
		return &Geom{T: MPg, L: l, P: pgs}
	}
	return &Geom{T: Pg, L: l, P: [][][]Coord{{cs, {}}}}
}

// DecorateSRIDs gives the geometry and, recursively, the members of collections
// an SRID each with probability p, from a small set so that equal and unequal
// pairs both occur (metadata that most operations must not look at).
func DecorateSRIDs(r *prng.Rand, m *Geom, p float64) {
	if r.Chance(p) {
		m.S = []int{4326, 3857, 1, 4326, -1}[r.Intn(5)]
	}
	for _, c := range m.G {
		DecorateSRIDs(r, c, p)
	}
}

// BigOfType returns a geometry of type t (not a collection) and layout l with
// about n coordinates in two or three parts (where the type has parts): sizes
// at which a library may switch to a blocked or parallel path.
func (c GenCfg) BigOfType(r *prng.Rand, t string, l int, n int) *Geom {
	cs := func(k int, ring bool) []Coord {
		out := make([]Coord, 0, k+1)
		for i := 0; i < k; i++ {
			out = append(out, c.coord(r, l))
		}
		if ring && k > 0 {
			out = append(out, append(Coord(nil), out[0]...))
		}
		return out
	}
	parts := r.Range(2, 3)
	switch t {
	case LS, LR:
		return &Geom{T: t, L: l, P: [][][]Coord{{cs(n, t == LR)}}}
	case MPt:
		pts := make([][]Coord, n)
		for i := range pts {
			pts[i] = []Coord{c.coord(r, l)}
		}
		return &Geom{T: MPt, L: l, P: [][][]Coord{pts}}
	case Pg, MLS:
		var ps [][]Coord
		for i := 0; i < parts; i++ {
			ps = append(ps, cs(n/parts, t == Pg))
		}
		return &Geom{T: t, L: l, P: [][][]Coord{ps}}
	case MPg:
		var pgs [][][]Coord
		for i := 0; i < parts; i++ {
			pgs = append(pgs, [][]Coord{cs(n/parts-10, true), cs(9, true)})
		}
		return &Geom{T: MPg, L: l, P: pgs}
	}
	return c.Gen(r, t, l, 0)
}

// GenAny draws a geometry of a random allowed type and layout, with an SRID on
// the outermost geometry when configured.
func (c GenCfg) GenAny(r *prng.Rand) *Geom {
	t := c.Types[r.Intn(len(c.Types))]
	l := c.Layouts[r.Intn(len(c.Layouts))]
	m := c.Gen(r, t, l, 0)
	if c.SRIDMode == 1 {
		m.S = SRID(r)
	}
	return m
}
