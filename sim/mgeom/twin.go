package mgeom

import (
	"encoding/hex"
	"fmt"
	"math"
	"strings"

	geom "github.com/twpayne/go-geom"
	"github.com/twpayne/go-geom/encoding/ewkb"
	"github.com/twpayne/go-geom/encoding/geojson"
	"github.com/twpayne/go-geom/encoding/wkb"
	"github.com/twpayne/go-geom/encoding/wkt"
)

// A geometry that an operation left internally inconsistent may answer the
// observers a check happens to use correctly and another part of the public
// API wrongly. TwinDiff therefore compares the object with its *twin*: a fresh
// object built, by the plainest route, from what the raw accessors of the
// object report. Both are rendered through the rest of the public API — the
// high-level accessors, the measures, the bounds, Clone and every encoder — and
// the renderings must agree. Nothing here knows what the right answer is: the
// two objects hold the same value, so every question has one answer.

// View is one rendering of a geometry through a public API.
type View struct{ Name, Text string }

func guardView(name string, f func() string) (v View) {
	v.Name = name
	defer func() {
		if r := recover(); r != nil {
			s := fmt.Sprint(r)
			if i := strings.IndexByte(s, '\n'); i >= 0 {
				s = s[:i]
			}
			v.Text = "panic: " + s
		}
	}()
	v.Text = f()
	return v
}

func bits(v float64) string { return fmt.Sprintf("%016x", math.Float64bits(v)) }

func coordText(c geom.Coord) string {
	var b strings.Builder
	b.WriteByte('(')
	for i, v := range c {
		if i > 0 {
			b.WriteByte(' ')
		}
		b.WriteString(bits(v))
	}
	b.WriteByte(')')
	return b.String()
}

func coords1(cs []geom.Coord) string {
	var b strings.Builder
	b.WriteByte('[')
	for _, c := range cs {
		b.WriteString(coordText(c))
	}
	b.WriteByte(']')
	return b.String()
}

func coords2(css [][]geom.Coord) string {
	var b strings.Builder
	b.WriteByte('[')
	for _, cs := range css {
		b.WriteString(coords1(cs))
	}
	b.WriteByte(']')
	return b.String()
}

func modelText(g geom.T) string {
	m, err := Observe(g)
	if err != nil {
		return "ill-formed: " + err.Error()
	}
	m.clearHow()
	return m.String()
}

func (m *Geom) clearHow() {
	m.How, m.Same = 0, 0
	for _, c := range m.G {
		c.clearHow()
	}
}

func errText(err error) string {
	if err == nil {
		return "ok"
	}
	return fmt.Sprintf("error %T", err)
}

// Views renders g through the public API other than the raw accessors.
func Views(g geom.T) []View {
	var vs []View
	add := func(name string, f func() string) { vs = append(vs, guardView(name, f)) }
	add("Empty", func() string { return fmt.Sprint(g.Empty()) })
	add("Bounds", func() string {
		b := g.Bounds()
		var sb strings.Builder
		fmt.Fprintf(&sb, "%d:", int(b.Layout()))
		for i := 0; i < b.Layout().Stride(); i++ {
			sb.WriteString(bits(b.Min(i)) + ".." + bits(b.Max(i)) + " ")
		}
		return sb.String()
	})
	switch t := g.(type) {
	case *geom.Point:
		add("Coords", func() string { return coordText(t.Coords()) })
		add("Clone", func() string { return modelText(t.Clone()) })
	case *geom.LineString:
		add("Coords", func() string { return coords1(t.Coords()) })
		add("Coord(i)", func() string {
			var sb strings.Builder
			for i := 0; i < t.NumCoords(); i++ {
				sb.WriteString(coordText(t.Coord(i)))
			}
			return sb.String()
		})
		add("Length", func() string { return bits(t.Length()) })
		add("Clone", func() string { return modelText(t.Clone()) })
	case *geom.LinearRing:
		add("Coords", func() string { return coords1(t.Coords()) })
		add("Length", func() string { return bits(t.Length()) })
		add("Area", func() string { return bits(t.Area()) })
		add("Clone", func() string { return modelText(t.Clone()) })
	case *geom.Polygon:
		add("Coords", func() string { return coords2(t.Coords()) })
		add("LinearRing(i)", func() string {
			var sb strings.Builder
			for i := 0; i < t.NumLinearRings(); i++ {
				sb.WriteString(modelText(t.LinearRing(i)))
			}
			return sb.String()
		})
		add("Length", func() string { return bits(t.Length()) })
		add("Area", func() string { return bits(t.Area()) })
		add("Clone", func() string { return modelText(t.Clone()) })
	case *geom.MultiPoint:
		add("Coords", func() string { return coords1(t.Coords()) })
		add("Point(i)", func() string {
			var sb strings.Builder
			for i := 0; i < t.NumPoints(); i++ {
				sb.WriteString(modelText(t.Point(i)))
			}
			return sb.String()
		})
		add("Clone", func() string { return modelText(t.Clone()) })
	case *geom.MultiLineString:
		add("Coords", func() string { return coords2(t.Coords()) })
		add("LineString(i)", func() string {
			var sb strings.Builder
			for i := 0; i < t.NumLineStrings(); i++ {
				sb.WriteString(modelText(t.LineString(i)))
			}
			return sb.String()
		})
		add("Length", func() string { return bits(t.Length()) })
		add("Clone", func() string { return modelText(t.Clone()) })
	case *geom.MultiPolygon:
		add("Coords", func() string {
			var sb strings.Builder
			for _, css := range t.Coords() {
				sb.WriteString(coords2(css))
			}
			return sb.String()
		})
		add("Polygon(i)", func() string {
			var sb strings.Builder
			for i := 0; i < t.NumPolygons(); i++ {
				sb.WriteString(modelText(t.Polygon(i)))
			}
			return sb.String()
		})
		add("Clone", func() string { return modelText(t.Clone()) })
	case *geom.GeometryCollection:
		add("Geoms", func() string {
			var sb strings.Builder
			for _, m := range t.Geoms() {
				sb.WriteString(modelText(m))
			}
			return sb.String()
		})
	}
	add("wkb", func() string {
		b, err := wkb.Marshal(g, wkb.NDR)
		return errText(err) + " " + hex.EncodeToString(b)
	})
	add("ewkb", func() string {
		b, err := ewkb.Marshal(g, ewkb.XDR)
		return errText(err) + " " + hex.EncodeToString(b)
	})
	add("wkt", func() string {
		s, err := wkt.Marshal(g)
		return errText(err) + " " + s
	})
	add("geojson", func() string {
		b, err := geojson.Marshal(g, geojson.EncodeGeometryWithBBox())
		return errText(err) + " " + string(b)
	})
	return vs
}

// TwinDiff returns "" when g and its twin agree in every view, otherwise a
// description of the first view in which they differ. An object whose raw
// accessors are ill-formed, or whose twin the constructors refuse, has no twin
// (that is for the caller's other checks to say): "" as well.
func TwinDiff(g geom.T) string {
	m, err := Observe(g)
	if err != nil {
		return ""
	}
	m.clearHow()
	setHow(m, 1)
	unfix(m)
	twin, err := Build(m)
	if err != nil {
		return ""
	}
	if tm, err := Observe(twin); err != nil || Diff(tm, m) != "" || int(twin.Layout()) != int(g.Layout()) {
		return "" // the constructors did not reproduce the value (not this check's subject)
	}
	a, b := Views(g), Views(twin)
	for i := range a {
		if i < len(b) && a[i].Text != b[i].Text {
			return fmt.Sprintf("%s of the object differs from %s of a freshly built object holding the same coordinates and structure (%s): %s  versus  %s", a[i].Name, a[i].Name, m, short(a[i].Text), short(b[i].Text))
		}
	}
	return ""
}

// unfix: Observe records every collection's layout as fixed; the twin of a
// collection with members computes its layout from them (the same value), only
// an empty collection needs SetLayout to carry one.
func unfix(m *Geom) {
	if m.T == GC && len(m.G) > 0 {
		m.Fixed = false
	}
	for _, c := range m.G {
		unfix(c)
	}
}

func setHow(m *Geom, how int) {
	m.How = how
	for _, c := range m.G {
		setHow(c, how)
	}
}

func short(s string) string {
	if len(s) > 300 {
		return s[:300] + "..."
	}
	return s
}
