package mgeom

import (
	"math"
	"strconv"
	"strings"
)

// WKT renders a model as well-known text (used as parser input by the
// caller-thread simulation; written from the OGC grammar, not from go-geom).
func (m *Geom) WKT() string {
	var b strings.Builder
	m.wkt(&b, true)
	return b.String()
}

func num(v float64) string {
	if math.IsNaN(v) || math.IsInf(v, 0) {
		return "0"
	}
	return strconv.FormatFloat(v, 'f', -1, 64)
}

func dimSuffix(l int) string {
	switch l {
	case 2:
		return " Z"
	case 3:
		return " M"
	case 4:
		return " ZM"
	}
	return ""
}

func wktCoords(b *strings.Builder, cs []Coord) {
	if len(cs) == 0 {
		b.WriteString("EMPTY")
		return
	}
	b.WriteByte('(')
	for i, c := range cs {
		if i > 0 {
			b.WriteString(", ")
		}
		for j, o := range c {
			if j > 0 {
				b.WriteByte(' ')
			}
			b.WriteString(num(float64(o)))
		}
	}
	b.WriteByte(')')
}

func wktList(b *strings.Builder, parts [][]Coord) {
	if len(parts) == 0 {
		b.WriteString("EMPTY")
		return
	}
	b.WriteByte('(')
	for i, p := range parts {
		if i > 0 {
			b.WriteString(", ")
		}
		wktCoords(b, p)
	}
	b.WriteByte(')')
}

func (m *Geom) wkt(b *strings.Builder, top bool) {
	m.Norm()
	names := map[string]string{Pt: "POINT", LS: "LINESTRING", LR: "LINESTRING", Pg: "POLYGON", MPt: "MULTIPOINT", MLS: "MULTILINESTRING", MPg: "MULTIPOLYGON", GC: "GEOMETRYCOLLECTION"}
	b.WriteString(names[m.T])
	b.WriteString(dimSuffix(m.EffLayout()))
	b.WriteByte(' ')
	switch m.T {
	case Pt, LS, LR:
		wktCoords(b, m.P[0][0])
	case MPt, Pg, MLS:
		wktList(b, m.P[0])
	case MPg:
		if len(m.P) == 0 {
			b.WriteString("EMPTY")
			return
		}
		b.WriteByte('(')
		for i, poly := range m.P {
			if i > 0 {
				b.WriteString(", ")
			}
			wktList(b, poly)
		}
		b.WriteByte(')')
	case GC:
		if len(m.G) == 0 {
			b.WriteString("EMPTY")
			return
		}
		b.WriteByte('(')
		for i, g := range m.G {
			if i > 0 {
				b.WriteString(", ")
			}
			g.wkt(b, false)
		}
		b.WriteByte(')')
	}
}

// GeoJSON renders a model as an RFC 7946 geometry object.
func (m *Geom) GeoJSON() string {
	var b strings.Builder
	m.geojson(&b)
	return b.String()
}

func jsonCoords(b *strings.Builder, cs []Coord) {
	b.WriteByte('[')
	for i, c := range cs {
		if i > 0 {
			b.WriteByte(',')
		}
		jsonCoord(b, c)
	}
	b.WriteByte(']')
}

func jsonCoord(b *strings.Builder, c Coord) {
	b.WriteByte('[')
	for j, o := range c {
		if j > 0 {
			b.WriteByte(',')
		}
		b.WriteString(num(float64(o)))
	}
	b.WriteByte(']')
}

func (m *Geom) geojson(b *strings.Builder) {
	m.Norm()
	b.WriteString(`{"type":"`)
	t := m.T
	if t == LR {
		t = LS
	}
	b.WriteString(t)
	b.WriteString(`",`)
	if m.T == GC {
		b.WriteString(`"geometries":[`)
		for i, g := range m.G {
			if i > 0 {
				b.WriteByte(',')
			}
			g.geojson(b)
		}
		b.WriteString("]}")
		return
	}
	b.WriteString(`"coordinates":`)
	switch m.T {
	case Pt:
		if len(m.P[0][0]) == 0 {
			b.WriteString("[]")
		} else {
			jsonCoord(b, m.P[0][0][0])
		}
	case LS, LR:
		jsonCoords(b, m.P[0][0])
	case MPt:
		b.WriteByte('[')
		for i, p := range m.P[0] {
			if i > 0 {
				b.WriteByte(',')
			}
			if len(p) == 0 {
				b.WriteString("[]")
			} else {
				jsonCoord(b, p[0])
			}
		}
		b.WriteByte(']')
	case Pg, MLS:
		b.WriteByte('[')
		for i, p := range m.P[0] {
			if i > 0 {
				b.WriteByte(',')
			}
			jsonCoords(b, p)
		}
		b.WriteByte(']')
	case MPg:
		b.WriteByte('[')
		for i, poly := range m.P {
			if i > 0 {
				b.WriteByte(',')
			}
			b.WriteByte('[')
			for j, p := range poly {
				if j > 0 {
					b.WriteByte(',')
				}
				jsonCoords(b, p)
			}
			b.WriteByte(']')
		}
		b.WriteByte(']')
	}
	b.WriteByte('}')
}
