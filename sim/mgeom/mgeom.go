// Package mgeom is the simulator's neutral model of a geometry: plain nested
// lists of coordinates, independent of go-geom's flat representation. The
// generator produces models; Build turns a model into a library object through
// the public API only, Observe maps a library object back to a model through
// public observers only. Equality is on float64 bit patterns.
package mgeom

import (
	"encoding/json"
	"fmt"
	"math"
	"strconv"
	"strings"

	geom "github.com/twpayne/go-geom"
)

// F is a float64 that survives JSON bit for bit and stays readable.
type F float64

// MarshalJSON writes a decimal string, or the bit pattern for NaNs.
func (f F) MarshalJSON() ([]byte, error) {
	return json.Marshal(FString(float64(f)))
}

// FString renders a float64 so that ParseF returns the same bits.
func FString(v float64) string {
	if math.IsNaN(v) {
		return fmt.Sprintf("0x%016x", math.Float64bits(v))
	}
	return strconv.FormatFloat(v, 'g', -1, 64)
}

// ParseF is the inverse of FString.
func ParseF(s string) (float64, error) {
	if strings.HasPrefix(s, "0x") {
		u, err := strconv.ParseUint(s[2:], 16, 64)
		if err != nil {
			return 0, err
		}
		return math.Float64frombits(u), nil
	}
	return strconv.ParseFloat(s, 64)
}

// UnmarshalJSON accepts what MarshalJSON writes, and bare numbers.
func (f *F) UnmarshalJSON(b []byte) error {
	if len(b) > 0 && b[0] == '"' {
		var s string
		if err := json.Unmarshal(b, &s); err != nil {
			return err
		}
		v, err := ParseF(s)
		if err != nil {
			return err
		}
		*f = F(v)
		return nil
	}
	var v float64
	if err := json.Unmarshal(b, &v); err != nil {
		return err
	}
	*f = F(v)
	return nil
}

// Coord is one model coordinate.
type Coord []F

// Geometry type names used in models.
const (
	Pt  = "Point"
	LS  = "LineString"
	LR  = "LinearRing"
	Pg  = "Polygon"
	MPt = "MultiPoint"
	MLS = "MultiLineString"
	MPg = "MultiPolygon"
	GC  = "GeometryCollection"
)

// AllTypes lists the seven OGC types (LinearRing is not one of them).
var AllTypes = []string{Pt, LS, Pg, MPt, MLS, MPg, GC}

// Geom is the model of one geometry. P is a uniform three-level nesting
// polygons -> rings -> coordinates:
//
//	Point            P[0][0] holds 0 or 1 coordinates
//	LineString/Ring  P[0][0] is the coordinate list
//	MultiPoint       P[0] is the list of points, each a list of 0 or 1 coordinates
//	Polygon          P[0] is the list of rings
//	MultiLineString  P[0] is the list of lines
//	MultiPolygon     P is the list of polygons, each a list of rings
//
// A GeometryCollection has children G instead and may have a fixed layout.
type Geom struct {
	T     string      `json:"t"`
	L     int         `json:"l"`
	S     int         `json:"srid,omitempty"`
	P     [][][]Coord `json:"p,omitempty"`
	G     []*Geom     `json:"g,omitempty"`
	Fixed bool        `json:"fixed,omitempty"`
	// How/3 odd: the second flavour of a route (empty arrays non-nil, spare
	// capacity reserved after construction).
	// How%3 selects the construction route in Build (0 New*Flat, 1 SetCoords,
	// 2 repeated Push); it is not part of the value.
	How int `json:"how,omitempty"`
	// Same > 0 on member i of a collection: Build puts the *same object* as
	// member Same-1 (< i) there a second time; the value is that member's.
	Same int `json:"same,omitempty"`
}

// Layout returns the library layout value of the model's layout number.
func (m *Geom) Layout() geom.Layout { return geom.Layout(m.L) }

// Stride is the number of ordinates per coordinate of a layout number,
// restated here from the layout definitions (XY 2, XYZ 3, XYM 3, XYZM 4, n>4 n).
func Stride(l int) int {
	switch l {
	case 0:
		return 0
	case 1:
		return 2
	case 2, 3:
		return 3
	case 4:
		return 4
	default:
		return l
	}
}

// Level returns the nesting level of a model's type (0 point .. 3 multipolygon).
func Level(t string) int {
	switch t {
	case Pt:
		return 0
	case LS, LR:
		return 1
	case MPt, Pg, MLS:
		return 2
	case MPg:
		return 3
	}
	return -1
}

// Norm brings P to the canonical shape of its type (missing outer levels
// added), recursively. It never changes the value.
func (m *Geom) Norm() *Geom {
	if m == nil {
		return nil
	}
	switch m.T {
	case Pt, LS, LR:
		if len(m.P) == 0 {
			m.P = [][][]Coord{{{}}}
		}
		if len(m.P) > 1 {
			m.P = m.P[:1]
		}
		if len(m.P[0]) == 0 {
			m.P[0] = [][]Coord{{}}
		}
		if len(m.P[0]) > 1 {
			m.P[0] = m.P[0][:1]
		}
		if m.T == Pt && len(m.P[0][0]) > 1 {
			m.P[0][0] = m.P[0][0][:1]
		}
	case MPt, Pg, MLS:
		if len(m.P) == 0 {
			m.P = [][][]Coord{{}}
		}
		if len(m.P) > 1 {
			m.P = m.P[:1]
		}
		if m.T == MPt {
			for i := range m.P[0] {
				if len(m.P[0][i]) > 1 {
					m.P[0][i] = m.P[0][i][:1]
				}
			}
		}
	case MPg:
	case GC:
		m.P = nil
		for i, c := range m.G {
			if c.Same < 0 || c.Same > i {
				c.Same = 0
			}
			if c.Same > 0 {
				k := c.Same
				*c = *m.G[k-1].Clone()
				c.Same = k
				continue
			}
			c.Norm()
		}
	}
	if m.T != GC {
		m.G = nil
		m.Fixed = false
		st := Stride(m.L)
		for i := range m.P {
			for j := range m.P[i] {
				for k := range m.P[i][j] {
					c := m.P[i][j][k]
					if len(c) > st {
						c = c[:st]
					}
					for len(c) < st {
						c = append(c, 0)
					}
					m.P[i][j][k] = c
				}
			}
		}
	}
	return m
}

// fillTopDown fills the empty collection gc according to m, attaching nested
// collections before they are filled.
func fillTopDown(gc *geom.GeometryCollection, m *Geom) error {
	for _, c := range m.G {
		if c.Same > 0 {
			if err := gc.Push(gc.Geom(c.Same - 1)); err != nil {
				return err
			}
			continue
		}
		if c.T == GC {
			inner := geom.NewGeometryCollection()
			if err := gc.Push(inner); err != nil {
				return err
			}
			if err := fillTopDown(inner, c); err != nil {
				return err
			}
			continue
		}
		k, err := Build(c)
		if err != nil {
			return err
		}
		if err := gc.Push(k); err != nil {
			return err
		}
	}
	if m.Fixed {
		if err := gc.SetLayout(geom.Layout(m.L)); err != nil {
			return err
		}
	}
	gc.SetSRID(m.S)
	return nil
}

// Clone returns a deep copy of the model.
func (m *Geom) Clone() *Geom {
	if m == nil {
		return nil
	}
	c := &Geom{T: m.T, L: m.L, S: m.S, Fixed: m.Fixed, How: m.How, Same: m.Same}
	if m.P != nil {
		c.P = make([][][]Coord, len(m.P))
		for i := range m.P {
			c.P[i] = make([][]Coord, len(m.P[i]))
			for j := range m.P[i] {
				c.P[i][j] = make([]Coord, len(m.P[i][j]))
				for k := range m.P[i][j] {
					c.P[i][j][k] = append(Coord(nil), m.P[i][j][k]...)
				}
			}
		}
	}
	for _, g := range m.G {
		c.G = append(c.G, g.Clone())
	}
	return c
}

// NumCoords returns the total number of coordinates in the model, recursively.
func (m *Geom) NumCoords() int {
	n := 0
	for i := range m.P {
		for j := range m.P[i] {
			n += len(m.P[i][j])
		}
	}
	for _, g := range m.G {
		n += g.NumCoords()
	}
	return n
}

// EachCoord calls f for every coordinate, recursively, with the layout number
// of the geometry that holds it.
func (m *Geom) EachCoord(f func(layout int, c Coord)) {
	for i := range m.P {
		for j := range m.P[i] {
			for _, c := range m.P[i][j] {
				f(m.L, c)
			}
		}
	}
	for _, g := range m.G {
		g.EachCoord(f)
	}
}

// JoinLayout is the smallest named layout that covers both a and b, as the
// documentation of GeometryCollection.Layout promises (XYZ joined with XYM is
// XYZM).
func JoinLayout(a, b int) int {
	if a == b {
		return a
	}
	if a == 0 {
		return b
	}
	if b == 0 {
		return a
	}
	if a > 4 || b > 4 {
		if a > b {
			return a
		}
		return b
	}
	hasZ := a == 2 || a == 4 || b == 2 || b == 4
	hasM := a == 3 || a == 4 || b == 3 || b == 4
	switch {
	case hasZ && hasM:
		return 4
	case hasZ:
		return 2
	case hasM:
		return 3
	}
	return 1
}

// EffLayout is the layout a geometry reports: its own, or for a collection
// without a fixed layout the join of its members'.
func (m *Geom) EffLayout() int {
	if m.T != GC {
		return m.L
	}
	if m.Fixed {
		return m.L
	}
	l := 0
	for _, g := range m.G {
		l = JoinLayout(l, g.EffLayout())
	}
	return l
}

// Equal compares two models as values: type, effective layout, SRID, structure
// and float bits. A nil list and an empty list are the same thing.
func Equal(a, b *Geom) bool { return Diff(a, b) == "" }

// Diff returns "" when the two models are equal and otherwise a short
// description of the first difference.
func Diff(a, b *Geom) string {
	if a == nil || b == nil {
		if a == b {
			return ""
		}
		return "one is nil"
	}
	if a.T != b.T {
		return fmt.Sprintf("type %s != %s", a.T, b.T)
	}
	if a.EffLayout() != b.EffLayout() {
		return fmt.Sprintf("layout %d != %d", a.EffLayout(), b.EffLayout())
	}
	if a.S != b.S {
		return fmt.Sprintf("srid %d != %d", a.S, b.S)
	}
	if a.T == GC {
		if len(a.G) != len(b.G) {
			return fmt.Sprintf("members %d != %d", len(a.G), len(b.G))
		}
		for i := range a.G {
			if d := Diff(a.G[i], b.G[i]); d != "" {
				return fmt.Sprintf("member %d: %s", i, d)
			}
		}
		return ""
	}
	if len(a.P) != len(b.P) {
		return fmt.Sprintf("level-3 count %d != %d", len(a.P), len(b.P))
	}
	for i := range a.P {
		if len(a.P[i]) != len(b.P[i]) {
			return fmt.Sprintf("[%d] level-2 count %d != %d", i, len(a.P[i]), len(b.P[i]))
		}
		for j := range a.P[i] {
			if len(a.P[i][j]) != len(b.P[i][j]) {
				return fmt.Sprintf("[%d][%d] coordinate count %d != %d", i, j, len(a.P[i][j]), len(b.P[i][j]))
			}
			for k := range a.P[i][j] {
				ca, cb := a.P[i][j][k], b.P[i][j][k]
				if len(ca) != len(cb) {
					return fmt.Sprintf("[%d][%d][%d] ordinates %d != %d", i, j, k, len(ca), len(cb))
				}
				for o := range ca {
					if math.Float64bits(float64(ca[o])) != math.Float64bits(float64(cb[o])) {
						return fmt.Sprintf("[%d][%d][%d][%d] %s != %s", i, j, k, o, FString(float64(ca[o])), FString(float64(cb[o])))
					}
				}
			}
		}
	}
	return ""
}

// String renders the model compactly for logs.
func (m *Geom) String() string {
	b, _ := json.Marshal(m)
	return string(b)
}

// Flat returns the flat ordinate list and the end offsets (in ordinates) the
// model has in a flat representation: ends for level-2 types (one per part),
// endss for MultiPolygon. Written from the definition, not from the library.
func (m *Geom) Flat() (flat []float64, ends []int, endss [][]int) {
	add := func(cs []Coord) {
		for _, c := range cs {
			for _, o := range c {
				flat = append(flat, float64(o))
			}
		}
	}
	switch m.T {
	case Pt, LS, LR:
		add(m.P[0][0])
	case MPt, Pg, MLS:
		for _, part := range m.P[0] {
			add(part)
			ends = append(ends, len(flat))
		}
	case MPg:
		for _, poly := range m.P {
			var es []int
			for _, ring := range poly {
				add(ring)
				es = append(es, len(flat))
			}
			endss = append(endss, es)
		}
	}
	return flat, ends, endss
}

func toLib(cs []Coord) []geom.Coord {
	out := make([]geom.Coord, len(cs))
	for i, c := range cs {
		out[i] = make(geom.Coord, len(c))
		for j, o := range c {
			out[i][j] = float64(o)
		}
	}
	return out
}

func toLib2(css [][]Coord) [][]geom.Coord {
	out := make([][]geom.Coord, len(css))
	for i, cs := range css {
		out[i] = toLib(cs)
	}
	return out
}

// Build constructs the library object for a model through the public API. The
// route is chosen by m.How. It returns an error if the library rejects a step
// that must succeed for a well-formed model.
func Build(m *Geom) (geom.T, error) {
	g, err := build(m)
	if err == nil && m.T != GC && (m.How/3)%2 == 1 {
		// second flavour of every route: room for two more coordinates is
		// reserved after construction (capacity is not content; an empty
		// geometry then holds an empty, non-nil coordinate array)
		if rs, ok := g.(interface{ Reserve(int) }); ok {
			n := 2
			if st := g.Stride(); st > 0 {
				n += len(g.FlatCoords()) / st
			}
			rs.Reserve(n)
		}
	}
	return g, err
}

func build(m *Geom) (g geom.T, err error) {
	defer func() {
		if r := recover(); r != nil {
			g, err = nil, fmt.Errorf("panic while building %s: %v", m.T, r)
		}
	}()
	m.Norm()
	l := m.Layout()
	how := m.How % 3
	flat, ends, endss := m.Flat()
	if (m.How/3)%2 == 1 && flat == nil {
		flat = []float64{} // the constructors are given an empty array, not nil
	}
	switch m.T {
	case Pt:
		var p *geom.Point
		switch {
		case len(m.P[0][0]) == 0:
			p = geom.NewPointEmpty(l)
		case how == 1:
			p = geom.NewPoint(l)
			if _, err := p.SetCoords(toLib(m.P[0][0])[0]); err != nil {
				return nil, err
			}
		default:
			p = geom.NewPointFlat(l, flat)
		}
		p.SetSRID(m.S)
		return p, nil
	case LS:
		var ls *geom.LineString
		if how == 1 {
			ls = geom.NewLineString(l)
			if _, err := ls.SetCoords(toLib(m.P[0][0])); err != nil {
				return nil, err
			}
		} else {
			ls = geom.NewLineStringFlat(l, flat)
		}
		ls.SetSRID(m.S)
		return ls, nil
	case LR:
		var lr *geom.LinearRing
		if how == 1 {
			lr = geom.NewLinearRing(l)
			if _, err := lr.SetCoords(toLib(m.P[0][0])); err != nil {
				return nil, err
			}
		} else {
			lr = geom.NewLinearRingFlat(l, flat)
		}
		lr.SetSRID(m.S)
		return lr, nil
	case Pg:
		var p *geom.Polygon
		switch how {
		case 1:
			p = geom.NewPolygon(l)
			if _, err := p.SetCoords(toLib2(m.P[0])); err != nil {
				return nil, err
			}
		case 2:
			p = geom.NewPolygon(l)
			for _, ring := range m.P[0] {
				f, _, _ := (&Geom{T: LR, L: m.L, P: [][][]Coord{{ring}}}).Flat()
				if err := p.Push(geom.NewLinearRingFlat(l, f)); err != nil {
					return nil, err
				}
			}
		default:
			p = geom.NewPolygonFlat(l, flat, ends)
		}
		p.SetSRID(m.S)
		return p, nil
	case MPt:
		var mp *geom.MultiPoint
		switch how {
		case 1:
			mp = geom.NewMultiPoint(l)
			cs := make([]geom.Coord, len(m.P[0]))
			for i, pt := range m.P[0] {
				if len(pt) == 1 {
					cs[i] = toLib(pt)[0]
				}
			}
			if _, err := mp.SetCoords(cs); err != nil {
				return nil, err
			}
		case 2:
			mp = geom.NewMultiPoint(l)
			for _, pt := range m.P[0] {
				var p *geom.Point
				if len(pt) == 0 {
					p = geom.NewPointEmpty(l)
				} else {
					f, _, _ := (&Geom{T: Pt, L: m.L, P: [][][]Coord{{pt}}}).Flat()
					p = geom.NewPointFlat(l, f)
				}
				if err := mp.Push(p); err != nil {
					return nil, err
				}
			}
		default:
			allFull := len(m.P[0]) > 0 && Stride(m.L) > 0
			for _, pt := range m.P[0] {
				if len(pt) == 0 {
					allFull = false
				}
			}
			if allFull && len(m.P[0])%2 == 0 {
				// the constructor's default: one point per coordinate, no ends
				// given (taken when the number of points is even)
				mp = geom.NewMultiPointFlat(l, flat)
				break
			}
			if ends == nil {
				ends = []int{}
			}
			mp = geom.NewMultiPointFlat(l, flat, geom.NewMultiPointFlatOptionWithEnds(ends))
		}
		mp.SetSRID(m.S)
		return mp, nil
	case MLS:
		var mls *geom.MultiLineString
		switch how {
		case 1:
			mls = geom.NewMultiLineString(l)
			if _, err := mls.SetCoords(toLib2(m.P[0])); err != nil {
				return nil, err
			}
		case 2:
			mls = geom.NewMultiLineString(l)
			for _, line := range m.P[0] {
				f, _, _ := (&Geom{T: LS, L: m.L, P: [][][]Coord{{line}}}).Flat()
				if err := mls.Push(geom.NewLineStringFlat(l, f)); err != nil {
					return nil, err
				}
			}
		default:
			mls = geom.NewMultiLineStringFlat(l, flat, ends)
		}
		mls.SetSRID(m.S)
		return mls, nil
	case MPg:
		var mp *geom.MultiPolygon
		switch how {
		case 1:
			mp = geom.NewMultiPolygon(l)
			cs := make([][][]geom.Coord, len(m.P))
			for i := range m.P {
				cs[i] = toLib2(m.P[i])
			}
			if _, err := mp.SetCoords(cs); err != nil {
				return nil, err
			}
		case 2:
			mp = geom.NewMultiPolygon(l)
			for _, poly := range m.P {
				f, e, _ := (&Geom{T: Pg, L: m.L, P: [][][]Coord{poly}}).Flat()
				if err := mp.Push(geom.NewPolygonFlat(l, f, e)); err != nil {
					return nil, err
				}
			}
		default:
			mp = geom.NewMultiPolygonFlat(l, flat, endss)
		}
		mp.SetSRID(m.S)
		return mp, nil
	case GC:
		if how == 2 {
			// top-down: a nested collection is attached to its parent first
			// and filled afterwards (as a recursive builder does)
			gc := geom.NewGeometryCollection()
			if err := fillTopDown(gc, m); err != nil {
				return nil, err
			}
			return gc, nil
		}
		gc := geom.NewGeometryCollection()
		var kids []geom.T
		for _, c := range m.G {
			if c.Same > 0 {
				kids = append(kids, kids[c.Same-1])
				continue
			}
			k, err := Build(c)
			if err != nil {
				return nil, err
			}
			kids = append(kids, k)
		}
		if how == 0 {
			if err := gc.Push(kids...); err != nil {
				return nil, err
			}
		} else {
			for _, k := range kids {
				if err := gc.Push(k); err != nil {
					return nil, err
				}
			}
		}
		if m.Fixed {
			if err := gc.SetLayout(l); err != nil {
				return nil, err
			}
		}
		gc.SetSRID(m.S)
		return gc, nil
	}
	return nil, fmt.Errorf("mgeom: unknown type %q", m.T)
}

func split(flat []float64, from, to, stride int) ([]Coord, error) {
	if from > to || to > len(flat) || from < 0 {
		return nil, fmt.Errorf("offsets %d..%d outside 0..%d", from, to, len(flat))
	}
	if stride <= 0 {
		if from != to {
			return nil, fmt.Errorf("coordinates with stride %d", stride)
		}
		return nil, nil
	}
	if (to-from)%stride != 0 {
		return nil, fmt.Errorf("range %d..%d is not a whole number of stride-%d coordinates", from, to, stride)
	}
	var out []Coord
	for i := from; i < to; i += stride {
		c := make(Coord, stride)
		for j := range c {
			c[j] = F(flat[i+j])
		}
		out = append(out, c)
	}
	return out, nil
}

// Observe maps a library geometry to a model using public observers only
// (Layout, Stride, SRID, FlatCoords, Ends, Endss, Geoms). It fails if the
// object is not structurally well formed.
func Observe(g geom.T) (m *Geom, err error) {
	defer func() {
		if r := recover(); r != nil {
			m, err = nil, fmt.Errorf("panic while observing %T: %v", g, r)
		}
	}()
	if g == nil {
		return nil, fmt.Errorf("nil geometry")
	}
	if gc, ok := g.(*geom.GeometryCollection); ok {
		if gc == nil {
			return nil, fmt.Errorf("nil *GeometryCollection")
		}
		m = &Geom{T: GC, L: int(gc.Layout()), S: gc.SRID()}
		if gc.NumGeoms() != len(gc.Geoms()) {
			return nil, fmt.Errorf("NumGeoms %d != len(Geoms) %d", gc.NumGeoms(), len(gc.Geoms()))
		}
		for i := 0; i < gc.NumGeoms(); i++ {
			c, err := Observe(gc.Geom(i))
			if err != nil {
				return nil, fmt.Errorf("member %d: %w", i, err)
			}
			m.G = append(m.G, c)
		}
		// A collection's layout is observable only as a value; record it as
		// fixed so that EffLayout reports it unchanged.
		m.Fixed = true
		return m, nil
	}
	stride := g.Stride()
	l := int(g.Layout())
	if stride != Stride(l) {
		return nil, fmt.Errorf("stride %d does not match layout %d", stride, l)
	}
	flat := g.FlatCoords()
	m = &Geom{L: l, S: g.SRID()}
	switch g := g.(type) {
	case *geom.Point:
		m.T = Pt
		cs, err := split(flat, 0, len(flat), stride)
		if err != nil {
			return nil, err
		}
		if len(cs) > 1 {
			return nil, fmt.Errorf("point with %d coordinates", len(cs))
		}
		m.P = [][][]Coord{{cs}}
	case *geom.LineString, *geom.LinearRing:
		m.T = LS
		if _, ok := g.(*geom.LinearRing); ok {
			m.T = LR
		}
		cs, err := split(flat, 0, len(flat), stride)
		if err != nil {
			return nil, err
		}
		m.P = [][][]Coord{{cs}}
	case *geom.Polygon, *geom.MultiLineString, *geom.MultiPoint:
		switch g.(type) {
		case *geom.Polygon:
			m.T = Pg
		case *geom.MultiLineString:
			m.T = MLS
		default:
			m.T = MPt
		}
		parts := [][]Coord{}
		off := 0
		for i, end := range g.Ends() {
			cs, err := split(flat, off, end, stride)
			if err != nil {
				return nil, fmt.Errorf("part %d: %w", i, err)
			}
			if m.T == MPt && len(cs) > 1 {
				return nil, fmt.Errorf("multipoint member %d has %d coordinates", i, len(cs))
			}
			parts = append(parts, cs)
			off = end
		}
		if off != len(flat) {
			return nil, fmt.Errorf("last end %d != len(flatCoords) %d", off, len(flat))
		}
		m.P = [][][]Coord{parts}
	case *geom.MultiPolygon:
		m.T = MPg
		off := 0
		m.P = [][][]Coord{}
		for i, ends := range g.Endss() {
			rings := [][]Coord{}
			for j, end := range ends {
				cs, err := split(flat, off, end, stride)
				if err != nil {
					return nil, fmt.Errorf("polygon %d ring %d: %w", i, j, err)
				}
				rings = append(rings, cs)
				off = end
			}
			m.P = append(m.P, rings)
		}
		if off != len(flat) {
			return nil, fmt.Errorf("last end %d != len(flatCoords) %d", off, len(flat))
		}
	default:
		return nil, fmt.Errorf("unknown geometry type %T", g)
	}
	return m, nil
}

// WellFormed restates the structural invariant of the flat representation on
// public observers: stride equals the layout's dimension, a whole number of
// coordinates, end offsets stride-aligned, non-decreasing and finishing at the
// end of the coordinates. Observe already enforces it; this is its name.
func WellFormed(g geom.T) error {
	_, err := Observe(g)
	return err
}

// SetCoords replaces the coordinates of g by those of model m (same type and
// layout) through the type's SetCoords method.
func SetCoords(g geom.T, m *Geom) error {
	m.Norm()
	var err error
	switch g := g.(type) {
	case *geom.Point:
		if len(m.P[0][0]) == 0 {
			return fmt.Errorf("mgeom: SetCoords cannot make a point empty")
		}
		_, err = g.SetCoords(toLib(m.P[0][0])[0])
	case *geom.LineString:
		_, err = g.SetCoords(toLib(m.P[0][0]))
	case *geom.LinearRing:
		_, err = g.SetCoords(toLib(m.P[0][0]))
	case *geom.Polygon:
		_, err = g.SetCoords(toLib2(m.P[0]))
	case *geom.MultiLineString:
		_, err = g.SetCoords(toLib2(m.P[0]))
	case *geom.MultiPoint:
		cs := make([]geom.Coord, len(m.P[0]))
		for i, pt := range m.P[0] {
			if len(pt) == 1 {
				cs[i] = toLib(pt)[0]
			}
		}
		_, err = g.SetCoords(cs)
	case *geom.MultiPolygon:
		cs := make([][][]geom.Coord, len(m.P))
		for i := range m.P {
			cs[i] = toLib2(m.P[i])
		}
		_, err = g.SetCoords(cs)
	default:
		err = fmt.Errorf("mgeom: SetCoords on %T", g)
	}
	return err
}
