// Package c02 simulates operation histories on multi-part geometries against a
// list-of-parts reference model. Two receivers A and B of one kind and layout
// (B exists so that Swap has a partner) go through a seeded history of Push,
// rejected Push, self-aliasing Push, Reverse, Swap, Clone, SetSRID; after every
// operation the full public observation of both must equal the model.
package c02

import (
	"bytes"
	"encoding/json"
	"errors"
	"fmt"
	"math"
	"strings"

	geom "github.com/twpayne/go-geom"

	"verif/sim/core"
	"verif/sim/mgeom"
	"verif/sim/prng"
)

// Op is one operation of a history.
type Op struct {
	K     string        `json:"k"` // push pushself pushmany setlayout reverse swap clone setsrid | xpush pushx acc (MultiPolygon only)
	R     int           `json:"r,omitempty"`
	Part  *mgeom.Geom   `json:"part,omitempty"`
	Parts []*mgeom.Geom `json:"parts,omitempty"`
	I     int           `json:"i,omitempty"`
	J     int           `json:"j,omitempty"`
	L     int           `json:"l,omitempty"`
	S     int           `json:"s,omitempty"`
	Via   bool          `json:"via_clone,omitempty"` // pushself: take the part from a clone of the receiver
	// Q (quiet): the receivers are not looked at after this operation, so that
	// the next operation meets whatever state this one left behind unobserved.
	Q bool `json:"q,omitempty"`
}

// Scenario is one closed C02 history.
type Scenario struct {
	Kind string `json:"kind"`
	L    int    `json:"l"`
	// LB, when not 0, is the layout receiver B starts with (A starts with L):
	// Swap then exchanges values of different layouts and strides.
	LB  int  `json:"lb,omitempty"`
	Ops []Op `json:"ops"`
}

type prop struct{}

func init() { core.Register(prop{}) }

func (prop) ID() string { return "C02" }

func (prop) Plan(tier string) []core.Phase {
	if tier == "thorough" {
		return []core.Phase{{Name: "history", Runs: 60000000}}
	}
	return []core.Phase{{Name: "history", Runs: 2000000}}
}

func (prop) Describe() core.Description {
	return core.Description{
		Level: "exploration",
		Rule: "A scenario is a receiver kind (Polygon, MultiPoint, MultiLineString, MultiPolygon, GeometryCollection), a layout (XY, XYZ, XYM, XYZM, Layout(5), Layout(6)) and a history of up to 40 operations on two receivers: Push of a generated part (empty with a per-run probability: empty ring/line/point, polygon without rings, polygon with empty rings; built through New*Flat, SetCoords or Push), Push of a part of every other layout (must be rejected), Push of a part obtained from the receiver itself or from its clone (self-aliasing), variadic collection Push with a wrong-layout member at any position, SetLayout, Reverse, Swap(A,B), Clone (either compared and dropped, or taking the other receiver's place so that original and clone are both pushed to for the rest of the history), SetSRID; receiver B may start with another layout than A (Swap then exchanges values of different strides); operations may be left unobserved (per-run probability 0, 0.3 or 0.8) so that the next one meets the state they left behind; for MultiPolygon also polygons that live on (built by ring pushes, pushed into a receiver, taken back out through Polygon(i), then pushed onto again), each checked against its own push history. After every operation that is not left unobserved both receivers are observed completely (all part accessors first, then their results). A run is non-trivial when at least two pushes succeeded and the history contains an empty part or a rejected push.",
		StateMeasure: "distinct (kind, layout, emptiness pattern of the final parts of A, operation-kind sequence) tuples",
		Assumptions: []string{
			"part accessors return new objects, so only type, layout and coordinates of a part are compared (for collections the member itself)",
			"what a previously obtained part looks like after a later Push on its parent is not demanded (documented storage sharing)",
		},
		RealComponents: []string{"go-geom root package: Polygon, MultiPoint, MultiLineString, MultiPolygon, GeometryCollection (Push, accessors, Coords, Reverse, Swap, Clone, SetSRID, SetLayout) and the part constructors"},
		StubComponents: []string{"the caller (seeded operation history, including rejected and self-aliasing operations)"},
		FaultKinds:     []string{"rejected-push", "rejected-variadic-push", "self-alias-push"},
		Probes:         []string{"probe:reserve-between-pushes", "probe:grown-own-part-pushed-back", "probe:ring-of-the-next-polygon-pushed-onto-the-previous", "probe:one-object-twice-in-a-variadic-push", "probe:polygon(i)-after->=2-empty-polygons", "probe:push-after-leading-empties", "probe:reject-after-nonempty", "probe:reverse-with-empty-part", "probe:variadic-reject-at-j>0", "probe:swap", "probe:clone", "probe:same-stride-wrong-layout", "probe:empty-part", "probe:layout>4", "probe:persistent-polygon-push", "probe:persistent-polygon-pushed-into-receiver", "probe:push-onto-accessor-part", "probe:pushed-part-overwritten-afterwards"},
	}
}

var partType = map[string]string{mgeom.Pg: mgeom.LR, mgeom.MPt: mgeom.Pt, mgeom.MLS: mgeom.LS, mgeom.MPg: mgeom.Pg}

func (prop) Decode(raw []byte) (any, error) {
	var s Scenario
	d := json.NewDecoder(bytes.NewReader(raw))
	d.DisallowUnknownFields()
	if err := d.Decode(&s); err != nil {
		return nil, err
	}
	if _, ok := partType[s.Kind]; !ok && s.Kind != mgeom.GC {
		return nil, fmt.Errorf("bad kind %q", s.Kind)
	}
	if s.LB < 0 || s.LB > 6 || (s.LB != 0 && s.Kind == mgeom.GC) {
		return nil, fmt.Errorf("bad layout of receiver B")
	}
	if s.L < 0 || s.L > 6 {
		return nil, fmt.Errorf("bad layout")
	}
	if len(s.Ops) > 80 {
		return nil, fmt.Errorf("history too long")
	}
	for _, op := range s.Ops {
		if op.R < 0 || op.R > 1 {
			return nil, fmt.Errorf("bad receiver")
		}
		check := func(p *mgeom.Geom) error {
			if p == nil {
				return fmt.Errorf("missing part")
			}
			if s.Kind != mgeom.GC && p.T != partType[s.Kind] {
				return fmt.Errorf("part of type %s for a %s", p.T, s.Kind)
			}
			return validPart(p, 0)
		}
		switch op.K {
		case "push":
			if err := check(op.Part); err != nil {
				return nil, err
			}
		case "pushmany":
			if s.Kind != mgeom.GC {
				return nil, fmt.Errorf("pushmany on %s", s.Kind)
			}
			for _, p := range op.Parts {
				if err := check(p); err != nil {
					return nil, err
				}
			}
		case "setlayout":
			if s.Kind != mgeom.GC || op.L < 0 || op.L > 6 {
				return nil, fmt.Errorf("bad setlayout")
			}
		case "bulk":
			if s.Kind == mgeom.GC || len(op.Parts) == 0 || len(op.Parts) > 4 || op.I < 1 || op.I > 400 {
				return nil, fmt.Errorf("bad bulk push")
			}
		case "reverse", "swap", "clone", "cloneover":
			if s.Kind == mgeom.GC {
				return nil, fmt.Errorf("%s on a collection", op.K)
			}
		case "pushself", "setsrid":
		case "reserve":
			if s.Kind == mgeom.GC || op.I < 0 || op.I > 4000 {
				return nil, fmt.Errorf("bad reserve")
			}
		case "xpush":
			if s.Kind != mgeom.MPg || op.Part == nil || op.Part.T != mgeom.LR || op.I < 0 || op.I > 1 {
				return nil, fmt.Errorf("bad xpush")
			}
			if err := validPart(op.Part, 0); err != nil {
				return nil, err
			}
		case "pushx", "acc", "xnext":
			if s.Kind != mgeom.MPg || op.I < 0 || op.J < 0 || op.J > 1 {
				return nil, fmt.Errorf("bad %s", op.K)
			}
		default:
			return nil, fmt.Errorf("unknown op %q", op.K)
		}
	}
	return &s, nil
}

func validPart(g *mgeom.Geom, depth int) error {
	if depth > 4 {
		return fmt.Errorf("too deep")
	}
	if mgeom.Level(g.T) < 0 && g.T != mgeom.GC {
		return fmt.Errorf("bad type %q", g.T)
	}
	if g.T != mgeom.GC && (g.L < 0 || g.L > 6 || (g.L == 0 && g.NumCoords() > 0)) {
		return fmt.Errorf("bad layout")
	}
	if g.T == mgeom.GC && (g.L < 0 || g.L > 6) {
		return fmt.Errorf("bad layout")
	}
	for _, c := range g.G {
		if c == nil {
			return fmt.Errorf("nil member")
		}
		if err := validPart(c, depth+1); err != nil {
			return err
		}
		if g.Fixed && c.EffLayout() != g.L {
			return fmt.Errorf("fixed layout mismatch")
		}
	}
	return nil
}

func (prop) Generate(r *prng.Rand, phase string) any {
	kinds := []string{mgeom.Pg, mgeom.MPt, mgeom.MLS, mgeom.MPg, mgeom.MPg, mgeom.GC}
	s := &Scenario{Kind: kinds[r.Intn(len(kinds))], L: []int{1, 2, 3, 4, 1, 2, 3, 4, 5, 6}[r.Intn(10)]}
	if s.Kind != mgeom.GC && r.Chance(0.04) {
		s.L = 0 // a receiver created without a layout: only parts without a layout (empty ones) match
	}
	cfg := mgeom.SwarmCfg(r, []int{1, 2, 3, 4, 5, 6})
	cfg.PEmpty = []float64{0, 0.15, 0.4, 0.7}[r.Intn(4)]
	cfg.MaxDepth = r.Range(0, 2)
	cfg.Types = mgeom.AllTypes
	cfg.ShareMembers = true // a collection part may hold one member object twice
	if cfg.MaxCoords > 5 && cfg.ExactCoords == 0 {
		cfg.MaxCoords = 5
	}
	if cfg.MaxParts > 4 && cfg.ExactParts == 0 {
		cfg.MaxParts = 4
	}
	cfg.MixLayout = false
	pWrong := []float64{0, 0.1, 0.3}[r.Intn(3)]
	nops := r.Range(1, []int{4, 8, 16, 40}[r.Intn(4)])
	part := func(l int) *mgeom.Geom {
		if l == 0 && s.Kind != mgeom.GC {
			return (&mgeom.Geom{T: partType[s.Kind], L: 0}).Norm()
		}
		if s.Kind == mgeom.GC {
			t := mgeom.AllTypes[r.Intn(len(mgeom.AllTypes))]
			return cfg.Gen(r, t, l, 1)
		}
		return cfg.Gen(r, partType[s.Kind], l, 0)
	}
	persistent := s.Kind == mgeom.MPg && s.L != 0 && r.Chance(0.5)
	cur := [2]int{s.L, s.L} // the layout each receiver has when the next operation is generated
	if !persistent && s.Kind != mgeom.GC && r.Chance(0.25) {
		s.LB = 1 + r.Intn(6)
		cur[1] = s.LB
	}
	curR := 0
	otherLayout := func() int {
		if s.Kind != mgeom.GC && cur[curR] != 0 && r.Chance(0.12) {
			return 0 // a part created without a layout: a mismatch like any other
		}
		for {
			l := 1 + r.Intn(6)
			if l != cur[curR] {
				return l
			}
		}
	}
	quiet := []float64{0, 0, 0.3, 0.8}[r.Intn(4)]
	if s.Kind != mgeom.GC && !persistent && r.Chance(0.003) {
		// hundreds of parts (a per-part parallel or blocked path would engage)
		op := Op{K: "bulk", R: 0, I: []int{64, 255, 256, 257, 300}[r.Intn(5)], Q: r.Chance(0.5)}
		for j := r.Range(1, 3); j > 0; j-- {
			op.Parts = append(op.Parts, part(cur[0]))
		}
		s.Ops = append(s.Ops, op)
	}
	for i := 0; i < nops; i++ {
		op := Op{R: r.Pick(3, 1), Q: r.Chance(quiet)}
		curR = op.R
		if persistent && r.Chance(0.5) {
			// polygons that live on: X[0], X[1] are built by ring pushes, pushed
			// into receivers, taken back out through the accessor, and grow again
			switch r.Pick(5, 3, 2) {
			case 0:
				op.K = "xpush"
				op.I = r.Intn(2)
				l := s.L
				if r.Chance(pWrong) {
					l = otherLayout()
				}
				if l == 0 {
					op.Part = (&mgeom.Geom{T: mgeom.LR, L: 0}).Norm() // a ring created without a layout holds no coordinates
				} else {
					op.Part = cfg.Gen(r, mgeom.LR, l, 0)
				}
			case 1:
				op.K = "pushx"
				op.I = r.Intn(2)
			case 2:
				op.K = "acc"
				op.I = r.Intn(8)
				op.J = r.Intn(2)
				if r.Chance(0.35) {
					// ... and at once its right-hand neighbour's first ring is pushed onto it
					s.Ops = append(s.Ops, op)
					op = Op{K: "xnext", R: op.R, I: op.J}
				}
			}
			s.Ops = append(s.Ops, op)
			continue
		}
		k := r.Pick(10, 2, 2, 2, 2, 1, 1, 2)
		switch k {
		case 0:
			op.K = "push"
			l := cur[op.R]
			if r.Chance(pWrong) {
				l = otherLayout()
			}
			op.Part = part(l)
		case 1:
			op.K = "pushself"
			op.I = r.Intn(8)
			op.Via = r.Chance(0.3)
		case 2:
			if s.Kind == mgeom.GC {
				op.K = "pushmany"
				n := r.Range(0, 4)
				for j := 0; j < n; j++ {
					l := s.L
					if r.Chance(pWrong) {
						l = otherLayout()
					}
					if j > 0 && r.Chance(0.15) {
						k := 1 + r.Intn(j)
						dup := op.Parts[k-1].Clone()
						dup.Same = k
						op.Parts = append(op.Parts, dup)
						continue
					}
					op.Parts = append(op.Parts, part(l))
				}
			} else {
				op.K = "reverse"
			}
		case 3:
			if s.Kind == mgeom.GC {
				op.K = "setlayout"
				op.L = []int{0, s.L, s.L, otherLayout()}[r.Intn(4)]
			} else {
				op.K = "swap"
				cur[0], cur[1] = cur[1], cur[0]
			}
		case 4:
			if s.Kind == mgeom.GC {
				op.K = "push"
				op.Part = part(s.L)
			} else if r.Chance(0.5) {
				op.K = "clone"
			} else {
				// the clone lives on as the other receiver
				op.K = "cloneover"
				cur[1-op.R] = cur[op.R]
			}
		case 5:
			op.K = "setsrid"
			op.S = mgeom.SRID(r)
		case 6:
			if s.Kind == mgeom.GC {
				op.K = "setsrid"
				op.S = r.Intn(5000)
			} else if r.Chance(0.5) {
				// room for I coordinates is asked for in the middle of a history
				op.K = "reserve"
				op.I = []int{0, 1, 2, 5, 9, 33, 200}[r.Intn(7)]
			} else {
				op.K = "reverse"
			}
		default:
			op.K = "push"
			op.Part = part(cur[op.R])
		}
		s.Ops = append(s.Ops, op)
	}
	return s
}

// model of one receiver
type recv struct {
	L     int
	S     int
	Fixed bool // collections only
	Parts []*mgeom.Geom
}

func (m *recv) whole(kind string) *mgeom.Geom {
	g := &mgeom.Geom{T: kind, L: m.L, S: m.S}
	switch kind {
	case mgeom.GC:
		g.Fixed = m.Fixed
		for _, p := range m.Parts {
			g.G = append(g.G, p)
		}
		if !m.Fixed {
			g.L = g.EffLayout()
		}
	case mgeom.MPg:
		g.P = [][][]mgeom.Coord{}
		for _, p := range m.Parts {
			g.P = append(g.P, p.P[0])
		}
	default:
		parts := [][]mgeom.Coord{}
		for _, p := range m.Parts {
			parts = append(parts, p.P[0][0])
		}
		g.P = [][][]mgeom.Coord{parts}
	}
	return g
}

// library receiver
type lrecv struct {
	kind string
	pg   *geom.Polygon
	mpt  *geom.MultiPoint
	mls  *geom.MultiLineString
	mpg  *geom.MultiPolygon
	gc   *geom.GeometryCollection
}

func newRecv(kind string, l geom.Layout) *lrecv {
	r := &lrecv{kind: kind}
	switch kind {
	case mgeom.Pg:
		r.pg = geom.NewPolygon(l)
	case mgeom.MPt:
		r.mpt = geom.NewMultiPoint(l)
	case mgeom.MLS:
		r.mls = geom.NewMultiLineString(l)
	case mgeom.MPg:
		r.mpg = geom.NewMultiPolygon(l)
	case mgeom.GC:
		r.gc = geom.NewGeometryCollection()
	}
	return r
}

func (r *lrecv) t() geom.T {
	switch r.kind {
	case mgeom.Pg:
		return r.pg
	case mgeom.MPt:
		return r.mpt
	case mgeom.MLS:
		return r.mls
	case mgeom.MPg:
		return r.mpg
	}
	return r.gc
}

func (r *lrecv) num() int {
	switch r.kind {
	case mgeom.Pg:
		return r.pg.NumLinearRings()
	case mgeom.MPt:
		return r.mpt.NumPoints()
	case mgeom.MLS:
		return r.mls.NumLineStrings()
	case mgeom.MPg:
		return r.mpg.NumPolygons()
	}
	return r.gc.NumGeoms()
}

func (r *lrecv) part(i int) geom.T {
	switch r.kind {
	case mgeom.Pg:
		return r.pg.LinearRing(i)
	case mgeom.MPt:
		return r.mpt.Point(i)
	case mgeom.MLS:
		return r.mls.LineString(i)
	case mgeom.MPg:
		return r.mpg.Polygon(i)
	}
	return r.gc.Geom(i)
}

func (r *lrecv) push(p geom.T) error {
	switch r.kind {
	case mgeom.Pg:
		return r.pg.Push(p.(*geom.LinearRing))
	case mgeom.MPt:
		return r.mpt.Push(p.(*geom.Point))
	case mgeom.MLS:
		return r.mls.Push(p.(*geom.LineString))
	case mgeom.MPg:
		return r.mpg.Push(p.(*geom.Polygon))
	}
	return r.gc.Push(p)
}

func (r *lrecv) clone() *lrecv {
	c := &lrecv{kind: r.kind}
	switch r.kind {
	case mgeom.Pg:
		c.pg = r.pg.Clone()
	case mgeom.MPt:
		c.mpt = r.mpt.Clone()
	case mgeom.MLS:
		c.mls = r.mls.Clone()
	case mgeom.MPg:
		c.mpg = r.mpg.Clone()
	}
	return c
}

func coordsEqual(lib []geom.Coord, model []mgeom.Coord, nilIsEmpty bool) string {
	if len(lib) != len(model) {
		return fmt.Sprintf("%d coordinates, want %d", len(lib), len(model))
	}
	for i := range lib {
		if len(lib[i]) != len(model[i]) {
			return fmt.Sprintf("coordinate %d has %d ordinates, want %d", i, len(lib[i]), len(model[i]))
		}
		for j := range lib[i] {
			if math.Float64bits(lib[i][j]) != math.Float64bits(float64(model[i][j])) {
				return fmt.Sprintf("coordinate %d ordinate %d is %v, want %v", i, j, lib[i][j], float64(model[i][j]))
			}
		}
	}
	return ""
}

func scribble(cs []geom.Coord) {
	for _, c := range cs {
		for i := range c {
			c[i] = -4242.5
		}
	}
}

// checkCoords compares Coords() with the concatenation of the parts, then
// overwrites the returned coordinates: they are a fresh copy, so the receiver
// must not notice (the next observation checks that).
func (r *lrecv) checkCoords(m *recv) string {
	switch r.kind {
	case mgeom.Pg, mgeom.MLS:
		var cs [][]geom.Coord
		if r.kind == mgeom.Pg {
			cs = r.pg.Coords()
		} else {
			cs = r.mls.Coords()
		}
		if len(cs) != len(m.Parts) {
			return fmt.Sprintf("Coords() has %d parts, want %d", len(cs), len(m.Parts))
		}
		for i := range cs {
			if d := coordsEqual(cs[i], m.Parts[i].P[0][0], true); d != "" {
				return fmt.Sprintf("Coords()[%d]: %s", i, d)
			}
			scribble(cs[i])
		}
	case mgeom.MPt:
		cs := r.mpt.Coords()
		if len(cs) != len(m.Parts) {
			return fmt.Sprintf("Coords() has %d points, want %d", len(cs), len(m.Parts))
		}
		for i := range cs {
			want := m.Parts[i].P[0][0]
			if len(want) == 0 {
				if cs[i] != nil {
					return fmt.Sprintf("Coords()[%d] = %v, want nil for the empty point", i, cs[i])
				}
				continue
			}
			if d := coordsEqual([]geom.Coord{cs[i]}, want, false); d != "" {
				return fmt.Sprintf("Coords()[%d]: %s", i, d)
			}
			scribble([]geom.Coord{cs[i]})
		}
	case mgeom.MPg:
		cs := r.mpg.Coords()
		if len(cs) != len(m.Parts) {
			return fmt.Sprintf("Coords() has %d polygons, want %d", len(cs), len(m.Parts))
		}
		for i := range cs {
			rings := m.Parts[i].P[0]
			if len(cs[i]) != len(rings) {
				return fmt.Sprintf("Coords()[%d] has %d rings, want %d", i, len(cs[i]), len(rings))
			}
			for j := range rings {
				if d := coordsEqual(cs[i][j], rings[j], true); d != "" {
					return fmt.Sprintf("Coords()[%d][%d]: %s", i, j, d)
				}
				scribble(cs[i][j])
			}
		}
	}
	return ""
}

// observeAll compares one receiver with its model completely.
func observeAll(res *core.Result, kind string, name string, r *lrecv, m *recv, after string) bool {
	fail := func(what, sigPart, format string, args ...any) bool {
		res.Fail(what, what+":"+kind+sigPart, "receiver %s (%s, layout %d) after %s: %s", name, kind, m.L, after, fmt.Sprintf(format, args...))
		return false
	}
	var ok = true
	p := core.Guard(func() {
		if n := r.num(); n != len(m.Parts) {
			ok = fail("part-count", "", "reports %d parts, %d were pushed", n, len(m.Parts))
			return
		}
		// all accessor results are obtained first and looked at afterwards, as a
		// caller collecting the parts does
		gots := make([]geom.T, len(m.Parts))
		for i := range m.Parts {
			gots[i] = r.part(i)
		}
		emptyRun := 0
		for i, want := range m.Parts {
			got := gots[i]
			res.Steps++
			obs, err := mgeom.Observe(got)
			if err != nil {
				ok = fail("ill-formed-part", "", "part %d is ill-formed: %v", i, err)
				return
			}
			if kind == mgeom.MPg {
				if len(want.P[0]) == 0 {
					emptyRun++
				} else {
					if emptyRun >= 2 {
						res.Count("probe:polygon(i)-after->=2-empty-polygons", 1)
					}
					emptyRun = 0
				}
			}
			w := want
			if kind != mgeom.GC {
				// accessors return new objects: type, layout and coordinates only
				w = want.Clone()
				w.S = 0
				obs.S = 0
			}
			if d := mgeom.Diff(obs, w); d != "" {
				ok = fail("part-differs", "", "part %d is %s, pushed was %s: %s", i, obs, w, d)
				return
			}
		}
		if d := r.checkCoords(m); d != "" {
			ok = fail("coords-differ", "", "%s", d)
			return
		}
		if nc, has := r.t().(interface{ NumCoords() int }); has && kind != mgeom.GC && kind != mgeom.MPt && m.L != 0 {
			// (without a layout upstream's NumCoords divides by zero, and a
			// MultiPoint counts its points, empty ones included: both recorded
			// in DESIGN.md as observations outside this property)
			want := 0
			for _, p := range m.Parts {
				want += p.NumCoords()
			}
			if got := nc.NumCoords(); got != want {
				ok = fail("coords-differ", ":NumCoords", "NumCoords() = %d, the parts pushed hold %d coordinates", got, want)
				return
			}
		}
		obs, err := mgeom.Observe(r.t())
		if err != nil {
			ok = fail("ill-formed", "", "the receiver is ill-formed: %v", err)
			return
		}
		if d := mgeom.Diff(obs, m.whole(kind)); d != "" {
			ok = fail("whole-differs", "", "observed %s, model %s: %s", obs, m.whole(kind), d)
			return
		}
	})
	if p != "" {
		return fail("panic", ":"+core.PanicSite(p), "observation panicked: %s", p)
	}
	return ok
}

func reversed(p *mgeom.Geom) *mgeom.Geom {
	c := p.Clone()
	for i := range c.P {
		for j := range c.P[i] {
			cs := c.P[i][j]
			for a, b := 0, len(cs)-1; a < b; a, b = a+1, b-1 {
				cs[a], cs[b] = cs[b], cs[a]
			}
		}
	}
	return c
}

func isEmptyPart(p *mgeom.Geom) bool { return p.NumCoords() == 0 }

func (prop) Execute(scAny any, phase string, log *core.Log) core.Result {
	s := scAny.(*Scenario)
	var res core.Result
	l := geom.Layout(s.L)
	if s.L > 4 {
		res.Count("probe:layout>4", 1)
	}
	lb := s.LB
	if lb == 0 {
		lb = s.L
	} else if lb != s.L {
		res.Count("probe:receivers-of-different-layouts", 1)
	}
	lib := [2]*lrecv{newRecv(s.Kind, l), newRecv(s.Kind, geom.Layout(lb))}
	mod := [2]*recv{{L: s.L}, {L: lb}}
	if s.Kind == mgeom.GC {
		// a fresh collection has no fixed layout
		mod[0].L, mod[1].L = 0, 0
	}
	names := [2]string{"A", "B"}
	successes, sawEmpty, sawReject := 0, false, false
	// persistent polygons (MultiPolygon histories only)
	var xs [2]*geom.Polygon
	var xm [2]*mgeom.Geom // model: a Polygon with its rings
	xalias := [2]int{-1, -1} // receiver whose storage X[k] was sliced from, or -1
	xidx := [2]int{-1, -1}   // ... and which polygon of it X[k] was, as long as X[k] is untouched since
	tainted := [2]bool{}     // a receiver whose accessor-returned part was pushed onto (documented storage sharing)
	dropAliases := func(r int) {
		for k := 0; k < 2; k++ {
			if xalias[k] == r || r < 0 && xalias[k] >= 0 {
				xs[k], xm[k], xalias[k] = nil, nil, -1
			}
		}
	}
	checkX := func(after string) bool {
		for k := 0; k < 2; k++ {
			if xs[k] == nil {
				continue
			}
			obs, err := mgeom.Observe(xs[k])
			if err != nil {
				res.Fail("ill-formed", "ill-formed:persistent-polygon", "persistent polygon X%d after %s is ill-formed: %v", k, after, err)
				return false
			}
			w := xm[k].Clone()
			w.S, obs.S = 0, 0
			if d := mgeom.Diff(obs, w); d != "" {
				res.Fail("part-differs", "part-differs:persistent-polygon", "polygon X%d (built by Push, pushed into / taken from a MultiPolygon, then pushed onto again) after %s is %s, its own push history gives %s: %s", k, after, obs, w, d)
				return false
			}
			for i := range w.P[0] {
				got, err := mgeom.Observe(xs[k].LinearRing(i))
				if err != nil || mgeom.Diff(got, &mgeom.Geom{T: mgeom.LR, L: w.L, P: [][][]mgeom.Coord{{w.P[0][i]}}}) != "" {
					res.Fail("part-differs", "part-differs:persistent-polygon", "X%d.LinearRing(%d) after %s is %v, pushed was %v (%v)", k, i, after, got, w.P[0][i], err)
					return false
				}
			}
		}
		return true
	}
	var kinds strings.Builder
	for oi, op := range s.Ops {
		rv, mv := lib[op.R], mod[op.R]
		after := fmt.Sprintf("op %d %s", oi, op.K)
		kinds.WriteByte(op.K[0])
		if len(op.K) > 4 {
			kinds.WriteByte(op.K[4])
		}
		switch op.K {
		case "pushx":
			// what was sliced from this receiver may legitimately change now -
			// except that the part about to be pushed is read by this very call
			keep := op.I % 2
			for k := 0; k < 2; k++ {
				if k != keep && xalias[k] == op.R {
					xs[k], xm[k], xalias[k] = nil, nil, -1
				}
			}
		case "push", "pushself", "pushmany", "reverse", "bulk":
			dropAliases(op.R) // what was sliced from this receiver may legitimately change now
		case "swap":
			dropAliases(-1)
		case "cloneover":
			dropAliases(1 - op.R)
		}
		switch op.K {
		case "xpush":
			k := op.I
			if xs[k] == nil {
				xs[k], xm[k], xalias[k] = geom.NewPolygon(l), &mgeom.Geom{T: mgeom.Pg, L: s.L, P: [][][]mgeom.Coord{{}}}, -1
			}
			xidx[k] = -1
			pm := op.Part.Clone().Norm()
			pg, err := mgeom.Build(pm)
			if err != nil {
				res.Fail("build", "build:"+pm.T, "building ring %s failed: %v", pm, err)
				return res
			}
			before, _ := mgeom.Observe(xs[k])
			if p := core.Guard(func() { err = xs[k].Push(pg.(*geom.LinearRing)) }); p != "" {
				res.Fail("panic", "panic:Polygon:"+core.PanicSite(p), "%s: Polygon.Push panicked: %s", after, p)
				return res
			}
			res.Steps++
			res.Count("probe:persistent-polygon-push", 1)
			log.Addf("%s X%d layout %d err=%v", after, k, pm.L, err)
			if pm.L == s.L {
				if err != nil {
					res.Fail("push-refused", "push-refused:Polygon", "%s: Push of a matching ring failed: %v", after, err)
					return res
				}
				xm[k].P[0] = append(xm[k].P[0], pm.P[0][0])
				if xalias[k] >= 0 {
					// X[k] shares the receiver's flat array: growing it may
					// overwrite what follows there
					tainted[xalias[k]] = true
					res.Count("probe:push-onto-accessor-part", 1)
					// ... and what any other accessor part of the same receiver sees
					for j := 0; j < 2; j++ {
						if j != k && xalias[j] == xalias[k] {
							xs[j], xm[j], xalias[j] = nil, nil, -1
						}
					}
				}
			} else {
				var lm geom.ErrLayoutMismatch
				if err == nil || !errors.As(err, &lm) {
					res.Fail("wrong-layout-accepted", "wrong-layout-accepted:Polygon", "%s: Polygon.Push of layout %d into layout %d returned %v", after, pm.L, s.L, err)
					return res
				}
				if afterObs, oerr := mgeom.Observe(xs[k]); oerr != nil || mgeom.Diff(before, afterObs) != "" {
					res.Fail("rejected-push-changed-receiver", "rejected-push-changed-receiver:Polygon", "%s: the rejected Push changed the polygon", after)
					return res
				}
			}
		case "xnext":
			// a ring moved between neighbours: X[k] is polygon i of a receiver
			// (a view of its array), the ring pushed onto it is the first ring
			// of polygon i+1 of the same receiver - storage that lies directly
			// behind X[k]'s own and inside its capacity
			k := op.I % 2
			ra := xalias[k]
			if xs[k] == nil || ra < 0 || xidx[k] < 0 || tainted[ra] || s.L == 0 {
				continue
			}
			i := xidx[k]
			parent := mod[ra]
			if i+1 >= len(parent.Parts) || len(parent.Parts[i+1].P[0]) == 0 || len(parent.Parts[i+1].P[0][0]) == 0 {
				continue
			}
			ringModel := parent.Parts[i+1].P[0][0]
			var err error
			if p := core.Guard(func() { err = xs[k].Push(lib[ra].mpg.Polygon(i + 1).LinearRing(0)) }); p != "" {
				res.Fail("panic", "panic:Polygon:"+core.PanicSite(p), "%s: pushing the neighbouring polygon's ring onto Polygon(%d) panicked: %s", after, i, p)
				return res
			}
			res.Steps++
			res.Count("probe:ring-of-the-next-polygon-pushed-onto-the-previous", 1)
			log.Addf("%s X%d (polygon %d of %s) gets ring 0 of polygon %d err=%v", after, k, i, names[ra], i+1, err)
			if err != nil {
				res.Fail("push-refused", "push-refused:Polygon", "%s: Push of a matching ring failed: %v", after, err)
				return res
			}
			ring := make([]mgeom.Coord, len(ringModel))
			for j := range ringModel {
				ring[j] = append(mgeom.Coord(nil), ringModel[j]...)
			}
			xm[k].P[0] = append(xm[k].P[0], ring)
			xidx[k] = -1
			// as with xpush: the receiver's array was written (here with the
			// values it held), nothing more is asked of it or of its other views
			tainted[ra] = true
			for j := 0; j < 2; j++ {
				if j != k && xalias[j] == ra {
					xs[j], xm[j], xalias[j] = nil, nil, -1
				}
			}
			if obs, oerr := mgeom.Observe(xs[k]); oerr != nil || mgeom.Diff(obs, xm[k]) != "" {
				res.Fail("part-differs", "part-differs:Polygon:neighbour-ring", "%s: after pushing ring 0 of polygon %d onto polygon %d of the same MultiPolygon the polygon is %s (%v), expected %s", after, i+1, i, obs, oerr, xm[k])
				return res
			}
		case "pushx":
			k := op.I % 2
			if xs[k] == nil {
				continue
			}
			if tainted[op.R] {
				// The receiver's earlier parts are no longer asked about (its
				// array was written through one of its own parts), but what is
				// pushed now - possibly that very part, grown, lying in the
				// receiver's spare capacity - must come back as pushed.
				if xalias[k] != op.R || s.L == 0 {
					continue
				}
				want := xm[k].Clone()
				var err error
				var last *geom.Polygon
				if p := core.Guard(func() {
					err = rv.mpg.Push(xs[k])
					if err == nil {
						last = rv.mpg.Polygon(rv.mpg.NumPolygons() - 1)
					}
				}); p != "" {
					res.Fail("panic", "panic:MultiPolygon:"+core.PanicSite(p), "%s: Push of X%d (a grown part of the receiver itself) panicked: %s", after, k, p)
					return res
				}
				res.Steps++
				res.Count("probe:grown-own-part-pushed-back", 1)
				log.Addf("%s X%d (own part, grown) into %s err=%v", after, k, names[op.R], err)
				if err != nil {
					res.Fail("push-refused", "push-refused:MultiPolygon", "%s: Push of X%d failed: %v", after, k, err)
					return res
				}
				obs, oerr := mgeom.Observe(last)
				if oerr == nil {
					obs.S, want.S = 0, 0
				}
				if oerr != nil || mgeom.Diff(obs, want) != "" {
					res.Fail("part-differs", "part-differs:MultiPolygon:own-part-pushed-back", "%s: the receiver's own part, grown by a ring and pushed back into the receiver, comes back as %s (%v); it was %s when pushed", after, obs, oerr, want)
					return res
				}
				// the pushed part's storage may have been written by this push
				xs[k], xm[k], xalias[k] = nil, nil, -1
				continue
			}
			var err error
			if p := core.Guard(func() { err = rv.mpg.Push(xs[k]) }); p != "" {
				res.Fail("panic", "panic:MultiPolygon:"+core.PanicSite(p), "%s: Push of X%d panicked: %s", after, k, p)
				return res
			}
			res.Steps++
			res.Count("probe:persistent-polygon-pushed-into-receiver", 1)
			log.Addf("%s X%d into %s err=%v", after, k, names[op.R], err)
			if err != nil {
				res.Fail("push-refused", "push-refused:MultiPolygon", "%s: Push of X%d failed: %v", after, k, err)
				return res
			}
			mv.Parts = append(mv.Parts, xm[k].Clone())
			successes++
			if xalias[k] == op.R {
				// the part was a view of the receiver it has just been pushed into
				xs[k], xm[k], xalias[k] = nil, nil, -1
			}
		case "acc":
			if len(mv.Parts) == 0 || tainted[op.R] {
				continue
			}
			i := op.I % len(mv.Parts)
			var q *geom.Polygon
			if p := core.Guard(func() { q = rv.mpg.Polygon(i) }); p != "" {
				res.Fail("panic", "panic:MultiPolygon:"+core.PanicSite(p), "%s: Polygon(%d) panicked: %s", after, i, p)
				return res
			}
			res.Steps++
			xs[op.J], xm[op.J], xalias[op.J] = q, mv.Parts[i].Clone(), op.R
			xidx[op.J] = i
			xm[op.J].S = 0
			log.Addf("%s X%d := %s.Polygon(%d)", after, op.J, names[op.R], i)
		case "push", "pushself":
			var pm *mgeom.Geom
			var pg geom.T
			if op.K == "push" {
				pm = op.Part.Clone().Norm()
				var err error
				pg, err = mgeom.Build(pm)
				if err != nil {
					res.Fail("build", "build:"+pm.T, "building part %s failed: %v", pm, err)
					return res
				}
			} else {
				if len(mv.Parts) == 0 {
					continue
				}
				i := op.I % len(mv.Parts)
				pm = mv.Parts[i].Clone()
				src := rv
				if op.Via && s.Kind != mgeom.GC {
					src = rv.clone()
				}
				if p := core.Guard(func() { pg = src.part(i) }); p != "" {
					res.Fail("panic", "panic:"+s.Kind+":"+core.PanicSite(p), "part accessor %d panicked: %s", i, p)
					return res
				}
				res.Count("self-alias-push", 1)
				after += fmt.Sprintf(" (part %d of itself, via clone %v)", i, op.Via)
			}
			if isEmptyPart(pm) {
				sawEmpty = true
				res.Count("probe:empty-part", 1)
			}
			wantOK := pm.EffLayout() == mv.L
			if s.Kind == mgeom.GC {
				wantOK = !mv.Fixed || pm.EffLayout() == mv.L
			}
			var before *mgeom.Geom
			if !op.Q {
				before, _ = mgeom.Observe(rv.t())
			}
			var err error
			if p := core.Guard(func() { err = rv.push(pg) }); p != "" {
				res.Fail("panic", "panic:"+s.Kind+":"+core.PanicSite(p), "%s: Push panicked: %s; part %s", after, p, pm)
				return res
			}
			res.Steps++
			log.Addf("%s recv %s part-layout %d err=%v", after, names[op.R], pm.EffLayout(), err)
			if wantOK {
				if err != nil {
					res.Fail("push-refused", "push-refused:"+s.Kind, "%s: Push of a matching part %s failed: %v", after, pm, err)
					return res
				}
				if s.Kind == mgeom.MPg && len(mv.Parts) > 0 && mv.whole(s.Kind).NumCoords() == 0 {
					res.Count("probe:push-after-leading-empties", 1)
				}
				mv.Parts = append(mv.Parts, pm)
				successes++
				if s.Kind != mgeom.GC && op.K == "push" && oi%3 == 0 {
					// the caller keeps using its part object: Push copied it,
					// so overwriting it must not show in the receiver
					fc := pg.FlatCoords()
					for i := range fc {
						fc[i] = -777.125
					}
					res.Count("probe:pushed-part-overwritten-afterwards", 1)
				}
			} else {
				sawReject = true
				res.Count("rejected-push", 1)
				if mgeom.Stride(pm.EffLayout()) == mgeom.Stride(mv.L) {
					res.Count("probe:same-stride-wrong-layout", 1)
				}
				if mv.whole(s.Kind).NumCoords() > 0 {
					res.Count("probe:reject-after-nonempty", 1)
				}
				var lm geom.ErrLayoutMismatch
				if err == nil {
					res.Fail("wrong-layout-accepted", "wrong-layout-accepted:"+s.Kind, "%s: Push of a part with layout %s into a %s of layout %s reported no error", after, geom.Layout(pm.EffLayout()), s.Kind, geom.Layout(mv.L))
					return res
				}
				if !errors.As(err, &lm) || int(lm.Got) != pm.EffLayout() || int(lm.Want) != mv.L {
					res.Fail("wrong-error", "wrong-error:"+s.Kind, "%s: Push of layout %s into layout %s returned %#v, want ErrLayoutMismatch{Got: %s, Want: %s}", after, geom.Layout(pm.EffLayout()), geom.Layout(mv.L), err, geom.Layout(pm.EffLayout()), geom.Layout(mv.L))
					return res
				}
				if op.Q {
					break // the comparison with the unchanged model comes with the next observation
				}
				afterObs, oerr := mgeom.Observe(rv.t())
				if oerr != nil || mgeom.Diff(before, afterObs) != "" {
					res.Fail("rejected-push-changed-receiver", "rejected-push-changed-receiver:"+s.Kind, "%s: the rejected Push changed the receiver from %s to %s (%v)", after, before, afterObs, oerr)
					return res
				}
			}
		case "pushmany":
			var pms []*mgeom.Geom
			var pgs []geom.T
			bad := -1
			for j, p := range op.Parts {
				pm := p.Clone().Norm()
				var g geom.T
				if k := p.Same; k > 0 && k <= j {
					// the same object is handed over a second time in one call
					pm = pms[k-1].Clone()
					g = pgs[k-1]
					res.Count("probe:one-object-twice-in-a-variadic-push", 1)
				} else {
					var err error
					if g, err = mgeom.Build(pm); err != nil {
						res.Fail("build", "build:"+pm.T, "building part %s failed: %v", pm, err)
						return res
					}
				}
				pms, pgs = append(pms, pm), append(pgs, g)
				if mv.Fixed && pm.EffLayout() != mv.L && bad < 0 {
					bad = j
				}
				if isEmptyPart(pm) {
					sawEmpty = true
				}
			}
			before, _ := mgeom.Observe(rv.t())
			var err error
			if p := core.Guard(func() { err = rv.gc.Push(pgs...) }); p != "" {
				res.Fail("panic", "panic:"+s.Kind+":"+core.PanicSite(p), "%s: variadic Push panicked: %s", after, p)
				return res
			}
			res.Steps++
			// the argument slice is the caller's: it is reused for something else
			// right away (with room to spare, as an application's batch has)
			spare := pgs[:len(pgs):cap(pgs)]
			for j := range spare[:cap(spare)] {
				spare[:cap(spare)][j] = geom.NewPointFlat(geom.XY, []float64{-777, -777})
			}
			log.Addf("%s recv %s n=%d bad=%d err=%v", after, names[op.R], len(pgs), bad, err)
			if bad < 0 {
				if err != nil {
					res.Fail("push-refused", "push-refused:"+s.Kind, "%s: variadic Push of matching parts failed: %v", after, err)
					return res
				}
				mv.Parts = append(mv.Parts, pms...)
				successes += len(pms)
			} else {
				sawReject = true
				res.Count("rejected-variadic-push", 1)
				if bad > 0 {
					res.Count("probe:variadic-reject-at-j>0", 1)
				}
				if err == nil {
					res.Fail("wrong-layout-accepted", "wrong-layout-accepted:"+s.Kind+":variadic", "%s: variadic Push with a wrong-layout member at position %d reported no error", after, bad)
					return res
				}
				var lm geom.ErrLayoutMismatch
				if !errors.As(err, &lm) {
					res.Fail("wrong-error", "wrong-error:"+s.Kind, "%s: variadic Push returned %#v, want a layout-mismatch error", after, err)
					return res
				}
				afterObs, oerr := mgeom.Observe(rv.t())
				if oerr != nil || mgeom.Diff(before, afterObs) != "" {
					res.Fail("rejected-push-changed-receiver", "rejected-push-changed-receiver:"+s.Kind+":variadic", "%s: the rejected variadic Push (bad member at %d of %d) changed the receiver from %s to %s", after, bad, len(pgs), before, afterObs)
					return res
				}
			}
		case "setlayout":
			okModel := true
			if op.L != 0 {
				for _, p := range mv.Parts {
					if p.EffLayout() != op.L {
						okModel = false
					}
				}
			}
			var err error
			if p := core.Guard(func() { err = rv.gc.SetLayout(geom.Layout(op.L)) }); p != "" {
				res.Fail("panic", "panic:"+s.Kind+":"+core.PanicSite(p), "%s: SetLayout panicked: %s", after, p)
				return res
			}
			res.Steps++
			log.Addf("%s recv %s layout %d err=%v", after, names[op.R], op.L, err)
			if okModel != (err == nil) {
				// SetLayout is only a route to a fixed-layout receiver; its own
				// contract is not part of the property. Follow the library.
				okModel = err == nil
			}
			if okModel {
				if op.L == 0 {
					mv.Fixed, mv.L = false, 0
				} else {
					mv.Fixed, mv.L = true, op.L
				}
			}
		case "reverse":
			hasEmpty := false
			for i, p := range mv.Parts {
				if isEmptyPart(p) {
					hasEmpty = true
				}
				mv.Parts[i] = reversed(p)
			}
			if hasEmpty && len(mv.Parts) > 1 {
				res.Count("probe:reverse-with-empty-part", 1)
			}
			p := core.Guard(func() {
				switch s.Kind {
				case mgeom.Pg:
					rv.pg.Reverse()
				case mgeom.MPt:
					rv.mpt.Reverse()
				case mgeom.MLS:
					rv.mls.Reverse()
				case mgeom.MPg:
					rv.mpg.Reverse()
				}
			})
			res.Steps++
			log.Addf("%s recv %s", after, names[op.R])
			if p != "" {
				res.Fail("panic", "panic:"+s.Kind+":"+core.PanicSite(p), "%s: Reverse panicked: %s", after, p)
				return res
			}
		case "swap":
			res.Count("probe:swap", 1)
			p := core.Guard(func() {
				switch s.Kind {
				case mgeom.Pg:
					lib[0].pg.Swap(lib[1].pg)
				case mgeom.MPt:
					lib[0].mpt.Swap(lib[1].mpt)
				case mgeom.MLS:
					lib[0].mls.Swap(lib[1].mls)
				case mgeom.MPg:
					lib[0].mpg.Swap(lib[1].mpg)
				}
			})
			res.Steps++
			log.Addf("%s", after)
			if p != "" {
				res.Fail("panic", "panic:"+s.Kind+":"+core.PanicSite(p), "%s: Swap panicked: %s", after, p)
				return res
			}
			mod[0], mod[1] = mod[1], mod[0]
			tainted[0], tainted[1] = tainted[1], tainted[0]
		case "clone":
			res.Count("probe:clone", 1)
			var c *lrecv
			if p := core.Guard(func() { c = rv.clone() }); p != "" {
				res.Fail("panic", "panic:"+s.Kind+":"+core.PanicSite(p), "%s: Clone panicked: %s", after, p)
				return res
			}
			res.Steps++
			log.Addf("%s recv %s", after, names[op.R])
			if !tainted[op.R] && !observeAll(&res, s.Kind, "clone of "+names[op.R], c, mv, after) {
				return res
			}
		case "bulk":
			for j := 0; j < op.I; j++ {
				pm := op.Parts[j%len(op.Parts)].Clone().Norm()
				if pm.EffLayout() != mv.L {
					break
				}
				pg, err := mgeom.Build(pm)
				if err != nil {
					res.Fail("build", "build:"+pm.T, "building part %s failed: %v", pm, err)
					return res
				}
				if p := core.Guard(func() { err = rv.push(pg) }); p != "" || err != nil {
					res.Fail("push-refused", "push-refused:"+s.Kind+":bulk", "%s: push %d of %d failed: %v %s", after, j, op.I, err, p)
					return res
				}
				mv.Parts = append(mv.Parts, pm)
				successes++
				if isEmptyPart(pm) {
					sawEmpty = true
				}
			}
			res.Steps += op.I
			res.Count("probe:hundreds-of-parts", 1)
		case "cloneover":
			// receiver 1-R is from now on R.Clone(): both are pushed to, reversed
			// and swapped independently for the rest of the history
			res.Count("probe:clone-lives-on", 1)
			var c *lrecv
			if p := core.Guard(func() { c = rv.clone() }); p != "" {
				res.Fail("panic", "panic:"+s.Kind+":"+core.PanicSite(p), "%s: Clone panicked: %s", after, p)
				return res
			}
			res.Steps++
			log.Addf("%s recv %s replaces %s", after, names[op.R], names[1-op.R])
			lib[1-op.R] = c
			cm := &recv{L: mv.L, S: mv.S, Fixed: mv.Fixed}
			for _, p := range mv.Parts {
				cm.Parts = append(cm.Parts, p.Clone())
			}
			mod[1-op.R] = cm
			tainted[1-op.R] = tainted[op.R]
		case "reserve":
			// capacity is not content: nothing the receiver reports may change
			if p := core.Guard(func() {
				switch s.Kind {
				case mgeom.Pg:
					rv.pg.Reserve(op.I)
				case mgeom.MPt:
					rv.mpt.Reserve(op.I)
				case mgeom.MLS:
					rv.mls.Reserve(op.I)
				case mgeom.MPg:
					rv.mpg.Reserve(op.I)
				}
			}); p != "" {
				res.Fail("panic", "panic:"+s.Kind+":"+core.PanicSite(p), "%s: Reserve(%d) panicked: %s", after, op.I, p)
				return res
			}
			res.Count("probe:reserve-between-pushes", 1)
			res.Steps++
			log.Addf("%s recv %s reserve %d", after, names[op.R], op.I)
		case "setsrid":
			mv.S = op.S
			switch s.Kind {
			case mgeom.Pg:
				rv.pg.SetSRID(op.S)
			case mgeom.MPt:
				rv.mpt.SetSRID(op.S)
			case mgeom.MLS:
				rv.mls.SetSRID(op.S)
			case mgeom.MPg:
				rv.mpg.SetSRID(op.S)
			case mgeom.GC:
				rv.gc.SetSRID(op.S)
			}
			res.Steps++
			log.Addf("%s recv %s srid %d", after, names[op.R], op.S)
		}
		if op.Q && oi != len(s.Ops)-1 {
			res.Count("probe:operation-left-unobserved", 1)
			continue
		}
		for k := 0; k < 2; k++ {
			if tainted[k] {
				continue
			}
			if !observeAll(&res, s.Kind, names[k], lib[k], mod[k], after) {
				return res
			}
		}
		if !checkX(after) {
			return res
		}
	}
	// at the end of the history: the receivers seen through the rest of the
	// public API (encoders, measures, bounds, Clone, high-level accessors) must
	// look like freshly built objects of the same value
	for k := 0; k < 2; k++ {
		if tainted[k] || res.Violation != nil {
			continue
		}
		if d := mgeom.TwinDiff(lib[k].t()); d != "" {
			res.Fail("views-differ", "views-differ:"+s.Kind, "receiver %s at the end of the history: %s", names[k], d)
			return res
		}
	}
	res.Nontrivial = successes >= 2 && (sawEmpty || sawReject)
	var pat strings.Builder
	for _, p := range mod[0].Parts {
		if isEmptyPart(p) {
			pat.WriteByte('e')
		} else {
			pat.WriteByte('x')
		}
	}
	res.StateKey = fmt.Sprintf("%s|%d|%s|%s", s.Kind, s.L, pat.String(), kinds.String())
	return res
}
