package c17

import (
	"bytes"
	"encoding/binary"
	"encoding/hex"
	"encoding/json"
	"encoding/xml"
	"errors"
	"fmt"
	"math"
	"regexp"
	"sort"
	"strings"

	geom "github.com/twpayne/go-geom"
	"github.com/twpayne/go-geom/bigxy"
	"github.com/twpayne/go-geom/encoding/geojson"
	"github.com/twpayne/go-geom/encoding/igc"
	gkml "github.com/twpayne/go-geom/encoding/kml"
	"github.com/twpayne/go-geom/encoding/wkb"
	"github.com/twpayne/go-geom/encoding/wkbcommon"
	"github.com/twpayne/go-geom/encoding/wkt"
	"github.com/twpayne/go-geom/sorting"
	"github.com/twpayne/go-geom/transform"
	"github.com/twpayne/go-geom/xy"
	"github.com/twpayne/go-geom/xy/lineintersector"
	"github.com/twpayne/go-geom/xyz"

	"verif/sim/core"
	"verif/sim/mgeom"
	"verif/sim/refwkb"
	"verif/sim/simio"
	"verif/sim/wkbadapt"
)

// item is one runtime argument of the shared pool.
type item struct {
	kind   string // g, c, f, b, s, j, i, bd
	g      geom.T
	gt     string // model type name for g
	c      geom.Coord
	layout geom.Layout
	f      []float64
	b      []byte
	s      string
	bd     *geom.Bounds
	// option values that applications typically create once and share
	gjOpts  []geojson.EncodeGeometryOption
	wktEnc  *wkt.Encoder
	wkbOpts []wkbcommon.WKBOption
	// a long-lived document object (geojson) that several callers marshal
	fc *geojson.FeatureCollection
}

type fn struct {
	name  string
	kinds []string // argument kinds, see matches()
	f     func(c *Call, a []*item) any
}

var table []fn
var tableIndex = map[string]int{}

func reg(name string, kinds []string, f func(c *Call, a []*item) any) {
	tableIndex[name] = len(table)
	table = append(table, fn{name: name, kinds: kinds, f: f})
}

// matches reports whether a pool item can fill an argument slot of kind k.
//
//	g        any geometry          g:<Type>  geometry of that model type
//	g:flat   any non-collection    g:1       LineString or LinearRing
//	c        coord (>= 2 ordinates) c3       coord with >= 3 ordinates
//	f        flat array  b bytes  s:wkt s:hex s:ewkbhex  j geojson  i igc  bd bounds
func matches(k string, it *item) bool {
	switch {
	case k == "g":
		return it.kind == "g"
	case k == "g:flat":
		return it.kind == "g" && it.gt != mgeom.GC
	case strings.HasPrefix(k, "g:"):
		return it.kind == "g" && it.gt == k[2:]
	case k == "c":
		return it.kind == "c"
	case k == "c3":
		return it.kind == "c" && len(it.c) >= 3
	case strings.HasPrefix(k, "s:"):
		return it.kind == k
	default:
		return it.kind == k
	}
}

var ptrRE = regexp.MustCompile(`0x[0-9a-f]{6,}`)

// scrub removes memory addresses from texts (some library errors format a
// geometry with %v), so that results are comparable across processes.
func scrub(s string) string { return ptrRE.ReplaceAllString(s, "0xPTR") }

func errText(err error) string {
	if err == nil {
		return "<nil>"
	}
	// an error is a value of its own: whoever holds it may render it, from
	// several goroutines at once, and always gets the same text
	other := make(chan string, 1)
	go func() { other <- err.Error() }()
	mine := err.Error()
	if theirs := <-other; theirs != mine {
		return "ERROR-TEXT-DIFFERS-BETWEEN-READERS:" + mine + " | " + theirs
	}
	var se *wkt.SyntaxError
	if errors.As(err, &se) {
		return "SyntaxError:" + mine
	}
	return scrub(fmt.Sprintf("%T:%s", err, mine))
}

func fl(v float64) string { return fmt.Sprintf("%016x", math.Float64bits(v)) }

func fls(vs []float64) string {
	var b strings.Builder
	for _, v := range vs {
		b.WriteString(fl(v))
		b.WriteByte(',')
	}
	return b.String()
}

// canon renders any result canonically (floats by bits).
func canon(v any) string {
	switch t := v.(type) {
	case nil:
		return "nil"
	case string:
		return t
	case bool, int:
		return fmt.Sprint(t)
	case float64:
		return fl(t)
	case []float64:
		return fls(t)
	case geom.Coord:
		return fls(t)
	case []int:
		return fmt.Sprint(t)
	case []byte:
		return hex.EncodeToString(t)
	case error:
		return errText(t)
	case geom.T:
		return canonGeom(t)
	case []any:
		parts := make([]string, len(t))
		for i, x := range t {
			parts[i] = canon(x)
		}
		return "(" + strings.Join(parts, " ; ") + ")"
	}
	return scrub(fmt.Sprintf("%T:%v", v, v))
}

func canonGeom(g geom.T) string {
	if g == nil {
		return "nil-geom"
	}
	switch t := g.(type) {
	case *geom.GeometryCollection:
		if t == nil {
			return "nil-gc"
		}
		parts := []string{fmt.Sprintf("GC l=%d srid=%d", t.Layout(), t.SRID())}
		for _, c := range t.Geoms() {
			parts = append(parts, canonGeom(c))
		}
		return "{" + strings.Join(parts, " ") + "}"
	}
	return fmt.Sprintf("%T l=%d s=%d srid=%d fc=%s ends=%v endss=%v", g, g.Layout(), g.Stride(), g.SRID(), fls(g.FlatCoords()), g.Ends(), g.Endss())
}

type cmp struct{}

func (cmp) IsEquals(x, y geom.Coord) bool { return x[0] == y[0] && x[1] == y[1] }
func (cmp) IsLess(x, y geom.Coord) bool {
	return x[0] < y[0] || (x[0] == y[0] && x[1] < y[1])
}

func lib(c *Call) wkbadapt.Lib {
	return wkbadapt.Lib{C: refwkb.Codec{EWKB: c.I&1 != 0, NaN: c.I&2 != 0 && c.I&1 == 0, BE: c.I&4 != 0}}
}

func idx(i, n int) int {
	if n <= 0 {
		return -1
	}
	if i < 0 {
		i = -i
	}
	return i % n
}

func xmlOf(el xml.Marshaler, err error) any {
	if err != nil {
		return err
	}
	b, merr := xml.Marshal(el)
	if merr != nil {
		return merr
	}
	return string(b)
}

func init() {
	// ---- root package: measures, bounds, accessors -------------------------
	reg("T.Bounds", []string{"g"}, func(c *Call, a []*item) any {
		b := a[0].g.Bounds()
		out := []any{int(b.Layout()), b.IsEmpty()}
		for i := 0; i < b.Layout().Stride(); i++ {
			out = append(out, b.Min(i), b.Max(i))
		}
		// the box is the caller's: used as an accumulator right away
		if n := b.Layout().Stride(); n > 0 {
			args := make([]float64, 2*n)
			for i := range args {
				args[i] = -6.5e7 - float64(i)
			}
			b.Set(args...)
		}
		return out
	})
	reg("T.Empty", []string{"g"}, func(c *Call, a []*item) any { return a[0].g.Empty() })
	reg("T.Meta", []string{"g"}, func(c *Call, a []*item) any {
		g := a[0].g
		out := []any{int(g.Layout()), g.Stride(), g.SRID()}
		if nc, ok := g.(interface{ NumCoords() int }); ok {
			n := -1
			if pn := core.Guard(func() { n = nc.NumCoords() }); pn != "" {
				out = append(out, "NumCoords panics")
			} else {
				out = append(out, n)
			}
		}
		if gc, ok := g.(*geom.GeometryCollection); ok {
			out = append(out, gc.FlatCoords(), gc.Ends(), gc.Endss())
		}
		return out
	})
	// the Must variants on objects of the caller's own, fed from shared arguments
	reg("Must.Variants", []string{"g"}, func(c *Call, a []*item) any {
		g := a[0].g
		fresh := geom.NewGeometryCollection().MustPush(g)
		out := []any{fresh.NumGeoms(), int(fresh.Layout())}
		if pn := core.Guard(func() { fresh.MustSetLayout(g.Layout()) }); pn != "" {
			out = append(out, "MustSetLayout panics")
		}
		cl := geom.Must(geom.SetSRID(cloneOf(g), 4326+c.I))
		out = append(out, cl)
		var own geom.T
		pn := core.Guard(func() {
			switch t := g.(type) {
			case *geom.Point:
				if !t.Empty() {
					own = geom.NewPoint(t.Layout()).MustSetCoords(t.Coords())
				}
			case *geom.LineString:
				own = geom.NewLineString(t.Layout()).MustSetCoords(t.Coords())
			case *geom.LinearRing:
				own = geom.NewLinearRing(t.Layout()).MustSetCoords(t.Coords())
			case *geom.Polygon:
				own = geom.NewPolygon(t.Layout()).MustSetCoords(t.Coords())
			case *geom.MultiPoint:
				own = geom.NewMultiPoint(t.Layout()).MustSetCoords(t.Coords())
			case *geom.MultiLineString:
				own = geom.NewMultiLineString(t.Layout()).MustSetCoords(t.Coords())
			case *geom.MultiPolygon:
				own = geom.NewMultiPolygon(t.Layout()).MustSetCoords(t.Coords())
			}
		})
		if pn != "" {
			out = append(out, "MustSetCoords panics")
		} else {
			out = append(out, own)
		}
		return out
	})
	reg("T.Length", []string{"g:flat"}, func(c *Call, a []*item) any {
		return a[0].g.(interface{ Length() float64 }).Length()
	})
	reg("T.Area", []string{"g:flat"}, func(c *Call, a []*item) any {
		return a[0].g.(interface{ Area() float64 }).Area()
	})
	reg("T.Coords", []string{"g:flat"}, func(c *Call, a []*item) any {
		switch g := a[0].g.(type) {
		case *geom.Point:
			if g.Empty() {
				return "empty"
			}
			return g.Coords()
		case *geom.LineString:
			return fmt.Sprint(g.Coords())
		case *geom.LinearRing:
			return fmt.Sprint(g.Coords())
		case *geom.Polygon:
			return fmt.Sprint(g.Coords())
		case *geom.MultiPoint:
			return fmt.Sprint(g.Coords())
		case *geom.MultiLineString:
			return fmt.Sprint(g.Coords())
		case *geom.MultiPolygon:
			return fmt.Sprint(g.Coords())
		}
		return nil
	})
	reg("T.Clone", []string{"g:flat"}, func(c *Call, a []*item) any {
		switch g := a[0].g.(type) {
		case *geom.Point:
			return geom.T(g.Clone())
		case *geom.LineString:
			return geom.T(g.Clone())
		case *geom.LinearRing:
			return geom.T(g.Clone())
		case *geom.Polygon:
			return geom.T(g.Clone())
		case *geom.MultiPoint:
			return geom.T(g.Clone())
		case *geom.MultiLineString:
			return geom.T(g.Clone())
		case *geom.MultiPolygon:
			return geom.T(g.Clone())
		}
		return nil
	})
	reg("T.Part", []string{"g"}, func(c *Call, a []*item) any {
		switch g := a[0].g.(type) {
		case *geom.Polygon:
			if i := idx(c.I, g.NumLinearRings()); i >= 0 {
				return geom.T(g.LinearRing(i))
			}
		case *geom.MultiPoint:
			if i := idx(c.I, g.NumPoints()); i >= 0 {
				return geom.T(g.Point(i))
			}
		case *geom.MultiLineString:
			if i := idx(c.I, g.NumLineStrings()); i >= 0 {
				return geom.T(g.LineString(i))
			}
		case *geom.MultiPolygon:
			if i := idx(c.I, g.NumPolygons()); i >= 0 {
				return geom.T(g.Polygon(i))
			}
		case *geom.GeometryCollection:
			if i := idx(c.I, g.NumGeoms()); i >= 0 {
				return g.Geom(i)
			}
		case *geom.LineString:
			if n := g.NumCoords(); n > 0 {
				return g.Coord(idx(c.I, n))
			}
		}
		return "no-part"
	})
	reg("LineString.Interpolate", []string{"g:LineString"}, func(c *Call, a []*item) any {
		g := a[0].g.(*geom.LineString)
		if g.NumCoords() == 0 {
			return "empty"
		}
		i, d := g.Interpolate(float64(c.X), idx(c.I, g.Stride()))
		return []any{i, d}
	})
	reg("Bounds.Overlaps", []string{"bd", "bd"}, func(c *Call, a []*item) any {
		l := geom.XY
		return []any{a[0].bd.Overlaps(l, a[1].bd), a[0].bd.IsEmpty(), canonGeom(a[1].bd.Polygon()), fmt.Sprint(a[0].bd.Clone().Layout())}
	})
	reg("Bounds.OverlapsPoint", []string{"bd", "c"}, func(c *Call, a []*item) any {
		return a[0].bd.OverlapsPoint(geom.XY, a[1].c)
	})
	reg("Bounds.Extend(fresh, g)", []string{"g"}, func(c *Call, a []*item) any {
		b := geom.NewBounds(geom.Layout(idx(c.I, 5))).Extend(a[0].g)
		out := []any{int(b.Layout())}
		for i := 0; i < b.Layout().Stride(); i++ {
			out = append(out, b.Min(i), b.Max(i))
		}
		return out
	})
	reg("Coord.Set(fresh, c)", []string{"c"}, func(c *Call, a []*item) any {
		dst := make(geom.Coord, len(a[0].c))
		dst.Set(a[0].c)
		return dst
	})
	reg("LineString.SubLineString", []string{"g:LineString"}, func(c *Call, a []*item) any {
		g := a[0].g.(*geom.LineString)
		n := g.NumCoords()
		if n == 0 {
			return "empty"
		}
		i := idx(c.I, n)
		return geom.T(g.SubLineString(i, n))
	})
	reg("Coord.Clone+Equal", []string{"c", "c"}, func(c *Call, a []*item) any {
		return []any{a[0].c.Clone(), a[0].c.Equal(geom.XY, a[1].c)}
	})
	// ---- xy -------------------------------------------------------------------
	reg("xy.ConvexHull", []string{"g:flat"}, func(c *Call, a []*item) any { return xy.ConvexHull(a[0].g) })
	reg("xy.ConvexHullFlat", []string{"f"}, func(c *Call, a []*item) any { return xy.ConvexHullFlat(a[0].layout, a[0].f) })
	reg("xy.Centroid", []string{"g"}, func(c *Call, a []*item) any {
		cc, err := xy.Centroid(a[0].g)
		return []any{cc, err}
	})
	reg("xy.PolygonsCentroid", []string{"g:Polygon", "g:Polygon"}, func(c *Call, a []*item) any {
		return xy.PolygonsCentroid(a[0].g.(*geom.Polygon), a[1].g.(*geom.Polygon))
	})
	reg("xy.MultiPolygonCentroid", []string{"g:MultiPolygon"}, func(c *Call, a []*item) any {
		return xy.MultiPolygonCentroid(a[0].g.(*geom.MultiPolygon))
	})
	reg("xy.LinesCentroid", []string{"g:LineString", "g:LineString"}, func(c *Call, a []*item) any {
		return xy.LinesCentroid(a[0].g.(*geom.LineString), a[1].g.(*geom.LineString))
	})
	reg("xy.LinearRingsCentroid", []string{"g:LinearRing"}, func(c *Call, a []*item) any {
		return xy.LinearRingsCentroid(a[0].g.(*geom.LinearRing))
	})
	reg("xy.MultiLineCentroid", []string{"g:MultiLineString"}, func(c *Call, a []*item) any {
		return xy.MultiLineCentroid(a[0].g.(*geom.MultiLineString))
	})
	reg("xy.PointsCentroid", []string{"g:Point", "g:Point"}, func(c *Call, a []*item) any {
		return xy.PointsCentroid(a[0].g.(*geom.Point), a[1].g.(*geom.Point))
	})
	reg("xy.MultiPointCentroid", []string{"g:MultiPoint"}, func(c *Call, a []*item) any {
		return xy.MultiPointCentroid(a[0].g.(*geom.MultiPoint))
	})
	reg("xy.PointsCentroidFlat", []string{"f"}, func(c *Call, a []*item) any { return xy.PointsCentroidFlat(a[0].layout, a[0].f) })
	reg("xy.SimplifyFlatCoords", []string{"f"}, func(c *Call, a []*item) any {
		return xy.SimplifyFlatCoords(a[0].f, math.Abs(float64(c.X)), a[0].layout.Stride())
	})
	reg("xy.RingPredicates", []string{"f", "c"}, func(c *Call, a []*item) any {
		l, ring, p := a[0].layout, a[0].f, a[1].c
		loc := xy.LocatePointInRing(l, p, ring)
		return []any{xy.IsPointInRing(l, p, ring), int(loc), loc.String(), string(loc.Symbol()), xy.IsOnLine(l, p, ring), xy.SignedArea(l, ring), xy.DistanceFromPointToLineString(l, p, ring)}
	})
	reg("xy.IsOnLine", []string{"f", "c"}, func(c *Call, a []*item) any { return xy.IsOnLine(a[0].layout, a[1].c, a[0].f) })
	reg("xy.IsRingCounterClockwise", []string{"f"}, func(c *Call, a []*item) any { return xy.IsRingCounterClockwise(a[0].layout, a[0].f) })
	reg("xy.Distances", []string{"c", "c", "c", "c"}, func(c *Call, a []*item) any {
		p, q, r, s := a[0].c, a[1].c, a[2].c, a[3].c
		return []any{xy.Distance(p, q), xy.DistanceFromPointToLine(p, q, r), xy.PerpendicularDistanceFromPointToLine(p, q, r), xy.DistanceFromLineToLine(p, q, r, s), xy.DoLinesOverlap(p, q, r, s), xy.IsPointWithinLineBounds(p, q, r)}
	})
	reg("xy.Angles", []string{"c", "c", "c"}, func(c *Call, a []*item) any {
		p, q, r := a[0].c, a[1].c, a[2].c
		return []any{xy.Angle(p, q), xy.AngleFromOrigin(p), xy.AngleBetween(p, q, r), xy.AngleBetweenOriented(p, q, r), xy.InteriorAngle(p, q, r), xy.IsAcute(p, q, r), xy.IsObtuse(p, q, r), int(xy.OrientationIndex(p, q, r))}
	})
	reg("xy.AngleScalars", []string{"c", "c"}, func(c *Call, a []*item) any {
		x, y := a[0].c[0]+float64(c.X), a[1].c[1]
		return []any{xy.Normalize(x), xy.NormalizePositive(x), xy.Diff(x, y), int(xy.AngleOrientation(x, y)), xy.AngleOrientation(x, y).String(), xy.Normalize(y * 7), xy.NormalizePositive(-y)}
	})
	reg("sorting.SortedCopies", []string{"f", "c"}, func(c *Call, a []*item) any {
		// sorting works in place: every caller sorts a copy of its own; the
		// shared array and the focal point are only read
		c1 := append([]float64(nil), a[0].f...)
		c2 := append([]float64(nil), a[0].f...)
		c3 := append([]float64(nil), a[0].f...)
		sort.Sort(sorting.NewFlatCoordSorting2D(a[0].layout, c1))
		sort.Sort(sorting.NewFlatCoordSorting(a[0].layout, c2, sorting.IsLess2D))
		sort.Sort(xy.NewRadialSorting(a[0].layout, c3, a[1].c))
		return []any{c1, c2, c3}
	})
	reg("Point.Ordinates", []string{"g:Point"}, func(c *Call, a []*item) any {
		p := a[0].g.(*geom.Point)
		out := []any{}
		for _, f := range []func() float64{p.X, p.Y, p.Z, p.M} {
			f := f
			var v float64
			if pn := core.Guard(func() { v = f() }); pn != "" {
				out = append(out, "panic")
			} else {
				out = append(out, v)
			}
		}
		cs := p.FlatCoords()
		if len(cs) >= 2 {
			out = append(out, geom.Coord(cs).X(), geom.Coord(cs).Y())
		}
		return out
	})
	reg("xy.Equal", []string{"f", "f"}, func(c *Call, a []*item) any {
		if len(a[0].f) < 2 || len(a[1].f) < 2 {
			return "short"
		}
		return xy.Equal(a[0].f, 0, a[1].f, 0)
	})
	// ---- xyz, bigxy, lineintersector, transform -----------------------------------
	reg("xyz.Distances", []string{"c3", "c3", "c3", "c3"}, func(c *Call, a []*item) any {
		p, q, r, s := a[0].c, a[1].c, a[2].c, a[3].c
		return []any{xyz.Distance(p, q), xyz.DistancePointToLine(p, q, r), xyz.DistanceLineToLine(p, q, r, s), xyz.VectorDot(p, q, r, s), xyz.VectorLength(p), xyz.VectorNormalize(p), xyz.Equals(p, q)}
	})
	reg("bigxy.OrientationIndex", []string{"c", "c", "c"}, func(c *Call, a []*item) any {
		return int(bigxy.OrientationIndex(a[0].c, a[1].c, a[2].c))
	})
	reg("bigxy.Intersection", []string{"c", "c", "c", "c"}, func(c *Call, a []*item) any {
		return bigxy.Intersection(a[0].c, a[1].c, a[2].c, a[3].c)
	})
	reg("lineintersector.LineIntersectsLine", []string{"c", "c", "c", "c"}, func(c *Call, a []*item) any {
		var st lineintersector.Strategy = lineintersector.RobustLineIntersector{}
		if c.I&1 != 0 {
			st = lineintersector.NonRobustLineIntersector{}
		}
		r := lineintersector.LineIntersectsLine(st, a[0].c, a[1].c, a[2].c, a[3].c)
		out := []any{int(r.Type()), r.Type().String(), r.HasIntersection()}
		for _, p := range r.Intersection() {
			out = append(out, p)
		}
		return out
	})
	reg("lineintersector.PointIntersectsLine", []string{"c", "c", "c"}, func(c *Call, a []*item) any {
		var st lineintersector.Strategy = lineintersector.RobustLineIntersector{}
		if c.I&1 != 0 {
			st = lineintersector.NonRobustLineIntersector{}
		}
		return lineintersector.PointIntersectsLine(st, a[0].c, a[1].c, a[2].c)
	})
	reg("transform.UniqueCoords", []string{"f"}, func(c *Call, a []*item) any {
		return transform.UniqueCoords(a[0].layout, cmp{}, a[0].f)
	})
	// ---- binary encoders and decoders ---------------------------------------------
	reg("wkb.Marshal", []string{"g"}, func(c *Call, a []*item) any {
		b, err := lib(c).Marshal(a[0].g)
		return []any{b, err}
	})
	reg("wkb.Write", []string{"g"}, func(c *Call, a []*item) any {
		w := simio.NewWriter(simio.WritePlan{FailAt: -1})
		err := lib(c).Write(w, a[0].g)
		return []any{w.Buf, err}
	})
	reg("wkb.HexEncode", []string{"g"}, func(c *Call, a []*item) any {
		s, err := lib(c).HexEncode(a[0].g)
		return []any{s, err}
	})
	reg("wkb.Value", []string{"g"}, func(c *Call, a []*item) any {
		l := lib(c)
		if !l.HasSQL() {
			l.C.NaN = false
		}
		v, err := l.Value(a[0].g)
		return []any{v, err}
	})
	reg("wkb.Unmarshal", []string{"b"}, func(c *Call, a []*item) any {
		g, err := lib(c).Unmarshal(a[0].b)
		return []any{g, err}
	})
	reg("wkb.Read", []string{"b"}, func(c *Call, a []*item) any {
		p := simio.NoFault()
		p.Default = 1 + idx(c.I>>3, 9)
		r := simio.NewReader(a[0].b, p)
		g, err := lib(c).Read(r)
		return []any{g, err, r.Pos()}
	})
	reg("wkb.Scan", []string{"b"}, func(c *Call, a []*item) any {
		l := lib(c)
		if !l.HasSQL() {
			l.C.NaN = false
		}
		g, err := l.Scan(wkbadapt.Kinds[idx(c.I>>3, len(wkbadapt.Kinds))], a[0].b)
		return []any{g, err}
	})
	reg("wkbhex.Decode", []string{"s:hex"}, func(c *Call, a []*item) any {
		g, err := lib(c).HexDecode(a[0].s)
		return []any{g, err}
	})
	// ---- text encoders and decoders ------------------------------------------------
	reg("wkt.Marshal", []string{"g"}, func(c *Call, a []*item) any {
		var opts []wkt.EncodeOption
		if c.I&1 != 0 {
			opts = append(opts, wkt.EncodeOptionWithMaxDecimalDigits(idx(c.I>>1, 8)))
		}
		s, err := wkt.Marshal(a[0].g, opts...)
		return []any{s, err}
	})
	reg("wkt.Unmarshal", []string{"s:wkt"}, func(c *Call, a []*item) any {
		g, err := wkt.Unmarshal(a[0].s)
		return []any{g, err}
	})
	reg("geojson.Marshal", []string{"g"}, func(c *Call, a []*item) any {
		var opts []geojson.EncodeGeometryOption
		if c.I&1 != 0 {
			opts = append(opts, geojson.EncodeGeometryWithBBox())
		}
		if c.I&2 != 0 {
			opts = append(opts, geojson.EncodeGeometryWithMaxDecimalDigits(idx(c.I>>2, 8)))
		}
		b, err := geojson.Marshal(a[0].g, opts...)
		return []any{string(b), err}
	})
	reg("geojson.Encode+Decode", []string{"g"}, func(c *Call, a []*item) any {
		ge, err := geojson.Encode(a[0].g)
		if err != nil {
			return err
		}
		g, err := ge.Decode()
		return []any{g, err}
	})
	reg("geojson.Unmarshal", []string{"j"}, func(c *Call, a []*item) any {
		var g geom.T
		err := geojson.Unmarshal(a[0].b, &g)
		return []any{g, err}
	})
	reg("geojson.Unmarshal/into-a-variable-that-holds-a-geometry", []string{"j", "g"}, func(c *Call, a []*item) any {
		// the destination variable still holds a geometry (the previous row, a
		// template): Unmarshal puts the decoded geometry into the variable, the
		// geometry it held stays what it was
		g := a[1].g
		err := geojson.Unmarshal(a[0].b, &g)
		return []any{g, err, g == a[1].g && err == nil && len(a[0].b) > 0}
	})
	reg("geojson.Feature", []string{"g"}, func(c *Call, a []*item) any {
		f := &geojson.Feature{ID: "f1", Geometry: a[0].g, Properties: map[string]interface{}{"k": "v", "n": 1.5}}
		if c.I&1 != 0 {
			f.BBox = a[0].g.Bounds()
		}
		b, err := f.MarshalJSON()
		if err != nil {
			return err
		}
		var f2 geojson.Feature
		err = f2.UnmarshalJSON(b)
		fc := &geojson.FeatureCollection{Features: []*geojson.Feature{f, f}}
		b2, err2 := fc.MarshalJSON()
		var fc2 geojson.FeatureCollection
		err3 := json.Unmarshal(b2, &fc2)
		return []any{string(b), err, f2.ID, f2.Geometry, string(b2), err2, err3, len(fc2.Features)}
	})
	reg("geojson.FeatureCollection.Unmarshal", []string{"j"}, func(c *Call, a []*item) any {
		doc := []byte(`{"type":"FeatureCollection","features":[{"type":"Feature","id":7,"properties":{"a":1},"geometry":` + string(a[0].b) + `}]}`)
		var fc geojson.FeatureCollection
		err := fc.UnmarshalJSON(doc)
		out := []any{err, len(fc.Features)}
		for _, f := range fc.Features {
			if f != nil {
				out = append(out, f.ID, f.Geometry)
			}
		}
		return out
	})
	// ---- long-lived document objects marshalled by several callers ------------------
	reg("geojson.FeatureCollection.MarshalJSON/shared-object", []string{"fc"}, func(c *Call, a []*item) any {
		if c.I&1 != 0 {
			b, err := a[0].fc.MarshalJSON()
			return []any{string(b), err}
		}
		b, err := json.Marshal(a[0].fc)
		return []any{string(b), err}
	})
	reg("geojson.Feature.MarshalJSON/shared-object", []string{"fc"}, func(c *Call, a []*item) any {
		fs := a[0].fc.Features
		if len(fs) == 0 {
			return "no feature"
		}
		f := fs[c.I%len(fs)]
		if c.I&8 != 0 {
			b, err := json.Marshal(f)
			return []any{string(b), err}
		}
		b, err := f.MarshalJSON()
		return []any{string(b), err}
	})
	// ---- option values shared between callers -------------------------------------
	reg("geojson.Marshal/shared-options", []string{"g", "o:gj"}, func(c *Call, a []*item) any {
		b, err := geojson.Marshal(a[0].g, a[1].gjOpts...)
		return []any{string(b), err}
	})
	reg("geojson.Encode/shared-options", []string{"g", "o:gj"}, func(c *Call, a []*item) any {
		ge, err := geojson.Encode(a[0].g, a[1].gjOpts...)
		if err != nil {
			return err
		}
		b, err := json.Marshal(ge)
		return []any{string(b), err}
	})
	reg("wkt.Encoder.Encode/shared-encoder", []string{"g", "o:wktenc"}, func(c *Call, a []*item) any {
		s, err := a[1].wktEnc.Encode(a[0].g)
		return []any{s, err}
	})
	reg("wkb.Marshal/shared-options", []string{"g", "o:wkbopt"}, func(c *Call, a []*item) any {
		var order binary.ByteOrder = wkb.NDR
		if c.I&4 != 0 {
			order = wkb.XDR
		}
		b, err := wkb.Marshal(a[0].g, order, a[1].wkbOpts...)
		return []any{b, err}
	})
	reg("wkb.Unmarshal/shared-options", []string{"b", "o:wkbopt"}, func(c *Call, a []*item) any {
		g, err := wkb.Unmarshal(a[0].b, a[1].wkbOpts...)
		return []any{g, err}
	})
	// ---- variadic arguments passed as a slice that has room to spare: the slice
	// (to its capacity) stays the caller's
	reg("xy.LinesCentroid/slice-with-spare-capacity", []string{"g:LineString", "g:LineString"}, func(c *Call, a []*item) any {
		sentinel := geom.NewLineString(geom.XY)
		pool := make([]*geom.LineString, 1, 2)
		pool[0], pool[:2][1] = a[1].g.(*geom.LineString), sentinel
		r := xy.LinesCentroid(a[0].g.(*geom.LineString), pool...)
		if pool[0] != a[1].g.(*geom.LineString) || pool[:2][1] != sentinel {
			return "CALLER-SLICE-CLOBBERED"
		}
		return r
	})
	reg("xy.PolygonsCentroid/slice-with-spare-capacity", []string{"g:Polygon", "g:Polygon"}, func(c *Call, a []*item) any {
		sentinel := geom.NewPolygon(geom.XY)
		pool := make([]*geom.Polygon, 1, 2)
		pool[0], pool[:2][1] = a[1].g.(*geom.Polygon), sentinel
		r := xy.PolygonsCentroid(a[0].g.(*geom.Polygon), pool...)
		if pool[0] != a[1].g.(*geom.Polygon) || pool[:2][1] != sentinel {
			return "CALLER-SLICE-CLOBBERED"
		}
		return r
	})
	reg("xy.PointsCentroid/slice-with-spare-capacity", []string{"g:Point", "g:Point"}, func(c *Call, a []*item) any {
		sentinel := geom.NewPoint(geom.XY)
		pool := make([]*geom.Point, 1, 2)
		pool[0], pool[:2][1] = a[1].g.(*geom.Point), sentinel
		r := xy.PointsCentroid(a[0].g.(*geom.Point), pool...)
		if pool[0] != a[1].g.(*geom.Point) || pool[:2][1] != sentinel {
			return "CALLER-SLICE-CLOBBERED"
		}
		return r
	})
	// ---- centroid calculators used directly (one calculator per call, shared arguments)
	reg("xy.CentroidCalculators", []string{"g:Polygon", "g:LineString", "g:Point"}, func(c *Call, a []*item) any {
		pg, ls, pt := a[0].g.(*geom.Polygon), a[1].g.(*geom.LineString), a[2].g.(*geom.Point)
		ac := xy.NewAreaCentroidCalculator(pg.Layout())
		ac.AddPolygon(pg)
		lc := xy.NewLineCentroidCalculator(pg.Layout())
		lc.AddPolygon(pg)
		if ls.Layout() == pg.Layout() {
			lc.AddLine(ls)
		}
		pc := xy.NewPointCentroidCalculator()
		if !pt.Empty() {
			pc.AddPoint(pt)
			pc.AddCoord(pt.Coords())
		}
		return []any{ac.GetCentroid(), lc.GetCentroid(), pc.GetCentroid()}
	})
	reg("kml.EncodeTyped", []string{"g"}, func(c *Call, a []*item) any {
		switch g := a[0].g.(type) {
		case *geom.Point:
			return xmlOf(gkml.EncodePoint(g), nil)
		case *geom.LineString:
			return xmlOf(gkml.EncodeLineString(g), nil)
		case *geom.LinearRing:
			return xmlOf(gkml.EncodeLinearRing(g), nil)
		case *geom.Polygon:
			return xmlOf(gkml.EncodePolygon(g), nil)
		case *geom.MultiPoint:
			return xmlOf(gkml.EncodeMultiPoint(g), nil)
		case *geom.MultiLineString:
			return xmlOf(gkml.EncodeMultiLineString(g), nil)
		case *geom.MultiPolygon:
			return xmlOf(gkml.EncodeMultiPolygon(g), nil)
		case *geom.GeometryCollection:
			return xmlOf(gkml.EncodeGeometryCollection(g))
		}
		return nil
	})
	reg("geojson.Geometry.Decode", []string{"j"}, func(c *Call, a []*item) any {
		var gg geojson.Geometry
		if err := json.Unmarshal(a[0].b, &gg); err != nil {
			return err
		}
		g, err := gg.Decode()
		return []any{g, err}
	})
	reg("geojson.Marshal/CRS", []string{"g"}, func(c *Call, a []*item) any {
		crs := &geojson.CRS{Type: "name", Properties: map[string]interface{}{"name": "urn:ogc:def:crs:OGC:1.3:CRS84"}}
		b, err := geojson.Marshal(a[0].g, geojson.EncodeGeometryWithCRS(crs), geojson.EncodeGeometryWithBBox())
		return []any{string(b), err}
	})
	reg("igc.Read+Errors", []string{"i"}, func(c *Call, a []*item) any {
		_, err := igc.Read(bytes.NewReader(a[0].b))
		if err == nil {
			return "no-errors"
		}
		return err.Error()
	})
	reg("kml.Encode", []string{"g"}, func(c *Call, a []*item) any { return xmlOf(gkml.Encode(a[0].g)) })
	reg("igc.Read", []string{"i"}, func(c *Call, a []*item) any {
		t, err := igc.Read(bytes.NewReader(a[0].b))
		out := []any{err}
		if t != nil {
			out = append(out, geom.T(t.LineString), fmt.Sprint(t.Headers), t.HasCoords())
		}
		return out
	})
	reg("igc.Encode", []string{"g:LineString"}, func(c *Call, a []*item) any {
		ls := a[0].g.(*geom.LineString)
		if ls.Stride() < 4 {
			return "needs-4-ordinates"
		}
		var b bytes.Buffer
		err := igc.NewEncoder(&b, igc.A("XYZ")).Encode(ls)
		return []any{b.String(), err}
	})
}

// cloneOf returns a deep copy of g (collections are rebuilt member by member).
func cloneOf(g geom.T) geom.T {
	switch g := g.(type) {
	case *geom.Point:
		return g.Clone()
	case *geom.LineString:
		return g.Clone()
	case *geom.LinearRing:
		return g.Clone()
	case *geom.Polygon:
		return g.Clone()
	case *geom.MultiPoint:
		return g.Clone()
	case *geom.MultiLineString:
		return g.Clone()
	case *geom.MultiPolygon:
		return g.Clone()
	case *geom.GeometryCollection:
		out := geom.NewGeometryCollection()
		for _, m := range g.Geoms() {
			if err := out.Push(cloneOf(m)); err != nil {
				panic(err)
			}
		}
		out.SetSRID(g.SRID())
		return out
	}
	return nil
}
