// Package c17 simulates caller threads: W goroutines, released by one barrier,
// each run a seeded list of non-mutating library calls on a shared pool of
// arguments. A solo phase first executes every distinct call alone, twice,
// with bitwise snapshots (to capacity) of every argument before and after; the
// concurrent phase must return the solo results, leave the arguments
// untouched and — in the -race worker — raise no race report.
package c17

import (
	"bytes"
	"encoding/hex"
	"encoding/json"
	"fmt"
	"math"
	"runtime"
	"strings"
	"sync"
	"unsafe"

	geom "github.com/twpayne/go-geom"
	"github.com/twpayne/go-geom/encoding/geojson"
	"github.com/twpayne/go-geom/encoding/wkbcommon"
	"github.com/twpayne/go-geom/encoding/wkt"

	"verif/sim/c19"
	"verif/sim/core"
	"verif/sim/mgeom"
	"verif/sim/prng"
	"verif/sim/refwkb"
	"verif/sim/wkbadapt"
)

// Arg is one argument of the shared pool, as a model.
type Arg struct {
	K   string        `json:"k"` // g, c, f, b, s:wkt, s:hex, j, i, bd
	G   *mgeom.Geom   `json:"g,omitempty"`
	C   mgeom.Coord   `json:"c,omitempty"`
	L   int           `json:"l,omitempty"`   // layout of f
	F   []mgeom.Coord `json:"f,omitempty"`   // coordinates of f
	Cap int           `json:"cap,omitempty"` // spare capacity (elements) behind the data
	Hex string        `json:"hex,omitempty"` // bytes of b
	S   string        `json:"s,omitempty"`   // text of s:*, j, i
	// option values (kinds o:gj, o:wktenc, o:wkbopt)
	Digits int  `json:"digits,omitempty"` // max decimal digits, -1 = not set
	BBox   bool `json:"bbox,omitempty"`
	NaN    bool `json:"nan,omitempty"`
	// document object (kind fc): N features (-1: the Features slice is nil),
	// each holding G (nil: no geometry) and, with Props, a property map
	N     int  `json:"n,omitempty"`
	Props bool `json:"props,omitempty"`
}

// Call is one library call on pool arguments.
type Call struct {
	Fn string  `json:"fn"`
	A  []int   `json:"a"`
	I  int     `json:"i,omitempty"`
	X  mgeom.F `json:"x,omitempty"`
}

// Step is one entry of a worker's program.
type Step struct {
	Call  int `json:"call"`
	Yield int `json:"yield,omitempty"` // runtime.Gosched calls before it
}

// Scenario is one closed C17 scenario.
type Scenario struct {
	BigGeom  bool     `json:"big_geom,omitempty"` // generation note only: the pool holds a large multi-part geometry or a long flat line
	Pool     []Arg    `json:"pool"`
	Calls    []Call   `json:"calls"`
	Workers  [][]Step `json:"workers"`
	MaxProcs int      `json:"maxprocs"`
	// DefLayout, when not 0, is geojson.DefaultLayout during the run (package
	// level configuration that library code may only read).
	DefLayout int `json:"def_layout,omitempty"`
}

type prop struct{}

func init() { core.Register(prop{}) }

func (prop) ID() string { return "C17" }

func (prop) Plan(tier string) []core.Phase {
	if tier == "thorough" {
		return []core.Phase{{Name: "cold", Race: true, Fresh: true, Runs: 300000}, {Name: "race", Race: true, Runs: 3000000}, {Name: "plain", Runs: 20000000}}
	}
	return []core.Phase{{Name: "cold", Race: true, Fresh: true, Runs: 4000}, {Name: "race", Race: true, Runs: 60000}, {Name: "plain", Runs: 400000}}
}

func (prop) Describe() core.Description {
	return core.Description{
		Level:        "exploration",
		Rule:         "A scenario is a pool of shared arguments built from models (geometries of all types and layouts, coordinates, flat arrays with spare capacity incl. >50-point and duplicate-heavy point sets, WKB/EWKB bytes, hex, WKT, GeoJSON and IGC text with spare capacity), a list of calls drawn from a table of every non-mutating exported entry point, and per worker goroutine (2-16) an ordered program of those calls with Gosched points, plus GOMAXPROCS. Solo phase: each distinct call runs alone twice with to-capacity snapshots before/after. Concurrent phase: all workers released by one barrier, unsynchronised until the join. Phase 'cold' gives every scenario a -race process of its own and runs the concurrent part first, so that the workers' calls are the process's first use of the library (lazily initialised state is then initialised concurrently). Phase 'race' runs in the -race binary (a report aborts the worker with exit 66 and is attributed to the scenario persisted before the run); phase 'plain' runs more workers and scenarios without the detector. A run is non-trivial when at least two workers executed calls that share at least one pool argument.",
		StateMeasure: "distinct (set of function pairs that overlapped on a shared argument, GOMAXPROCS, worker count) tuples",
		Assumptions: []string{
			"the Go race detector reports from happens-before (vector clocks), so a report does not depend on the observed interleaving; its bounded shadow memory is mitigated by short programs (<= 6 calls per worker) and many runs",
			"instruction-level interleaving inside library code is not controlled: the library has no synchronisation point to intercept, and inserted hand-offs would order exactly the accesses whose lack of order is the bug; argument mutation is decided deterministically by the solo-phase snapshots",
			"a panic of a call is a result like any other: it must merely be the same alone and concurrently",
		},
		RealComponents: []string{"go-geom root package", "xy", "xyz", "bigxy", "xy/lineintersector", "transform", "encoding/wkb", "encoding/ewkb", "wkbhex/ewkbhex", "SQL wrappers", "encoding/wkt", "encoding/geojson", "encoding/kml", "encoding/igc", "Go runtime scheduler and race detector"},
		StubComponents: []string{"caller goroutines (seeded programs)", "io.Reader/io.Writer under stream codecs (simio, per call)"},
		FaultKinds:     []string{"shared-argument-overlap", "same-call-on->=2-workers", "gosched-yields"},
		Probes:         []string{"probe:hull>50pts", "probe:hull-degenerate-octagon", "probe:decoder-and-encoder-share-bytes", "probe:wkt-parse-x>=4", "probe:panic-as-result", "probe:maxprocs=1", "probe:workers>=8", "probe:shared-option-value-on->=2-workers", "probe:large-multi-part-geometry", "probe:flat-line>=2048-segments", "probe:geometry-with-layout-none-or->XYZM", "probe:refused-geometry-meets-shared-option-value"},
	}
}

func (prop) Decode(raw []byte) (any, error) {
	var s Scenario
	d := json.NewDecoder(bytes.NewReader(raw))
	d.DisallowUnknownFields()
	if err := d.Decode(&s); err != nil {
		return nil, err
	}
	if s.MaxProcs < 1 || s.MaxProcs > 64 {
		return nil, fmt.Errorf("bad maxprocs")
	}
	if s.DefLayout < 0 || s.DefLayout > 4 {
		return nil, fmt.Errorf("bad default layout")
	}
	if len(s.Workers) > 32 {
		return nil, fmt.Errorf("too many workers")
	}
	items, err := buildPool(s.Pool)
	if err != nil {
		return nil, err
	}
	for _, c := range s.Calls {
		ti, ok := tableIndex[c.Fn]
		if !ok {
			return nil, fmt.Errorf("unknown function %q", c.Fn)
		}
		f := table[ti]
		if len(c.A) != len(f.kinds) {
			return nil, fmt.Errorf("%s: %d arguments, want %d", c.Fn, len(c.A), len(f.kinds))
		}
		for j, ai := range c.A {
			if ai < 0 || ai >= len(items) || !matches(f.kinds[j], items[ai]) {
				return nil, fmt.Errorf("%s: argument %d does not fit", c.Fn, j)
			}
		}
	}
	for _, w := range s.Workers {
		for _, st := range w {
			if st.Call < 0 || st.Call >= len(s.Calls) || st.Yield < 0 || st.Yield > 16 {
				return nil, fmt.Errorf("bad step")
			}
		}
	}
	return &s, nil
}

// ---- pool construction ---------------------------------------------------------

func spare(n int, fill byte) []byte {
	b := make([]byte, n)
	for i := range b {
		b[i] = fill
	}
	return b
}

func buildPool(pool []Arg) ([]*item, error) {
	items := make([]*item, len(pool))
	for i, a := range pool {
		it := &item{kind: a.K}
		switch a.K {
		case "g":
			if a.G == nil {
				return nil, fmt.Errorf("pool %d: no geometry", i)
			}
			if err := validGeom(a.G, 0); err != nil {
				return nil, err
			}
			m := a.G.Clone().Norm()
			g, err := mgeom.Build(m)
			if err != nil {
				return nil, fmt.Errorf("pool %d: %v", i, err)
			}
			it.g, it.gt = g, m.T
		case "bd":
			if a.G == nil {
				return nil, fmt.Errorf("pool %d: no geometry", i)
			}
			if err := validGeom(a.G, 0); err != nil {
				return nil, err
			}
			g, err := mgeom.Build(a.G.Clone().Norm())
			if err != nil {
				return nil, err
			}
			if _, ok := g.(*geom.GeometryCollection); ok {
				return nil, fmt.Errorf("pool %d: bounds of a collection", i)
			}
			it.bd = g.Bounds()
		case "c":
			if len(a.C) < 2 || len(a.C) > 4 {
				return nil, fmt.Errorf("pool %d: coord with %d ordinates", i, len(a.C))
			}
			buf := make([]float64, len(a.C), len(a.C)+2)
			for j, o := range a.C {
				buf[j] = float64(o)
			}
			it.c = buf
		case "f":
			if a.L < 1 || a.L > 4 {
				return nil, fmt.Errorf("pool %d: bad layout", i)
			}
			st := mgeom.Stride(a.L)
			c := a.Cap
			if c < 0 || c > 64 {
				return nil, fmt.Errorf("pool %d: bad cap", i)
			}
			buf := make([]float64, 0, len(a.F)*st+c)
			for _, co := range a.F {
				for j := 0; j < st; j++ {
					v := 0.0
					if j < len(co) {
						v = float64(co[j])
					}
					buf = append(buf, v)
				}
			}
			full := buf[:cap(buf)]
			for j := len(buf); j < len(full); j++ {
				full[j] = -777.25
			}
			it.f, it.layout = buf, geom.Layout(a.L)
		case "b":
			raw, err := hex.DecodeString(a.Hex)
			if err != nil {
				return nil, err
			}
			if a.Cap < 0 || a.Cap > 64 {
				return nil, fmt.Errorf("pool %d: bad cap", i)
			}
			it.b = append(raw, spare(a.Cap, 0xAB)...)[:len(raw)]
		case "j", "i":
			if a.Cap < 0 || a.Cap > 64 {
				return nil, fmt.Errorf("pool %d: bad cap", i)
			}
			it.b = append([]byte(a.S), spare(a.Cap, 0xAB)...)[:len(a.S)]
		case "s:wkt", "s:hex":
			it.s = a.S
		case "fc":
			if a.N < -1 || a.N > 4 {
				return nil, fmt.Errorf("pool %d: bad feature count", i)
			}
			var g geom.T
			if a.G != nil {
				if err := validGeom(a.G, 0); err != nil {
					return nil, err
				}
				var err error
				if g, err = mgeom.Build(a.G.Clone().Norm()); err != nil {
					return nil, fmt.Errorf("pool %d: %v", i, err)
				}
			}
			fc := &geojson.FeatureCollection{}
			if a.BBox && g != nil {
				fc.BBox = g.Bounds()
			}
			if a.N >= 0 {
				fc.Features = make([]*geojson.Feature, 0, a.N+1)
			}
			for k := 0; k < a.N; k++ {
				f := &geojson.Feature{Geometry: g}
				if k%2 == 0 {
					f.ID = fmt.Sprintf("f%d", k)
				}
				if a.Props {
					f.Properties = map[string]interface{}{"k": "v", "n": 1.5}
				}
				if a.BBox && g != nil && k == 0 {
					f.BBox = g.Bounds()
				}
				fc.Features = append(fc.Features, f)
			}
			it.fc, it.g = fc, g
		case "o:gj":
			if a.Digits < -1 || a.Digits > 15 {
				return nil, fmt.Errorf("pool %d: bad digits", i)
			}
			if a.BBox {
				it.gjOpts = append(it.gjOpts, geojson.EncodeGeometryWithBBox())
			}
			if a.Digits >= 0 {
				it.gjOpts = append(it.gjOpts, geojson.EncodeGeometryWithMaxDecimalDigits(a.Digits))
			}
		case "o:wktenc":
			if a.Digits < -1 || a.Digits > 15 {
				return nil, fmt.Errorf("pool %d: bad digits", i)
			}
			if a.Digits >= 0 {
				it.wktEnc = wkt.NewEncoder(wkt.EncodeOptionWithMaxDecimalDigits(a.Digits))
			} else {
				it.wktEnc = wkt.NewEncoder()
			}
		case "o:wkbopt":
			if a.NaN {
				it.wkbOpts = []wkbcommon.WKBOption{wkbcommon.WKBOptionEmptyPointHandling(wkbcommon.EmptyPointHandlingNaN)}
			} else {
				it.wkbOpts = []wkbcommon.WKBOption{wkbcommon.WKBOptionEmptyPointHandling(wkbcommon.EmptyPointHandlingError)}
			}
		default:
			return nil, fmt.Errorf("pool %d: unknown kind %q", i, a.K)
		}
		items[i] = it
	}
	return items, nil
}

func validGeom(g *mgeom.Geom, depth int) error {
	if depth > 5 {
		return fmt.Errorf("too deep")
	}
	if mgeom.Level(g.T) < 0 && g.T != mgeom.GC {
		return fmt.Errorf("bad type %q", g.T)
	}
	if g.T != mgeom.GC && (g.L < 0 || g.L > 6) {
		return fmt.Errorf("bad layout")
	}
	if g.T != mgeom.GC {
		// layout 0 (none) holds no coordinates; layouts 5 and 6 are the ones
		// the IGC decoder produces and most encoders refuse
		bad := false
		for _, pp := range g.P {
			for _, p := range pp {
				for _, c := range p {
					if len(c) != mgeom.Stride(g.L) || g.L == 0 {
						bad = true
					}
				}
			}
		}
		if bad {
			return fmt.Errorf("coordinate width does not match the layout")
		}
	}
	if g.T == mgeom.GC && (g.L < 0 || g.L > 4) {
		return fmt.Errorf("bad layout")
	}
	for _, c := range g.G {
		if c == nil {
			return fmt.Errorf("nil member")
		}
		if err := validGeom(c, depth+1); err != nil {
			return err
		}
		if g.Fixed && c.EffLayout() != g.L {
			return fmt.Errorf("fixed layout mismatch")
		}
	}
	return nil
}

// ---- snapshots -------------------------------------------------------------------

type snap [][]uint64

func snapFloats(f []float64) []uint64 {
	f = f[:cap(f)]
	out := make([]uint64, len(f)+1)
	out[0] = uint64(len(f))
	for i, v := range f {
		out[i+1] = math.Float64bits(v)
	}
	return out
}

func snapInts(f []int) []uint64 {
	f = f[:cap(f)]
	out := make([]uint64, len(f)+1)
	out[0] = uint64(len(f))
	for i, v := range f {
		out[i+1] = uint64(v)
	}
	return out
}

func snapGeom(g geom.T, out *snap) {
	if gc, ok := g.(*geom.GeometryCollection); ok {
		*out = append(*out, []uint64{uint64(gc.Layout()), uint64(gc.SRID()), uint64(gc.NumGeoms())})
		for _, c := range gc.Geoms() {
			snapGeom(c, out)
		}
		return
	}
	*out = append(*out, []uint64{uint64(g.Layout()), uint64(g.Stride()), uint64(g.SRID()), uint64(len(g.FlatCoords())), uint64(len(g.Ends())), uint64(len(g.Endss()))})
	*out = append(*out, snapFloats(g.FlatCoords()), snapInts(g.Ends()))
	ess := g.Endss()
	for _, es := range ess[:cap(ess)] {
		*out = append(*out, snapInts(es))
	}
}

func snapshot(items []*item) []snap {
	out := make([]snap, len(items))
	for i, it := range items {
		var s snap
		switch it.kind {
		case "g":
			snapGeom(it.g, &s)
		case "c":
			s = append(s, snapFloats(it.c), []uint64{uint64(len(it.c))})
		case "f":
			s = append(s, snapFloats(it.f), []uint64{uint64(len(it.f))})
		case "b", "j", "i":
			b := it.b[:cap(it.b)]
			u := make([]uint64, len(b)+1)
			u[0] = uint64(len(it.b))
			for j, x := range b {
				u[j+1] = uint64(x)
			}
			s = append(s, u)
		case "bd":
			u := []uint64{uint64(it.bd.Layout())}
			for d := 0; d < it.bd.Layout().Stride(); d++ {
				u = append(u, math.Float64bits(it.bd.Min(d)), math.Float64bits(it.bd.Max(d)))
			}
			s = append(s, u)
		case "fc":
			b2u := func(b bool) uint64 {
				if b {
					return 1
				}
				return 0
			}
			boxU := func(b *geom.Bounds) []uint64 {
				if b == nil {
					return []uint64{0}
				}
				u := []uint64{1, uint64(b.Layout())}
				for d := 0; d < b.Layout().Stride(); d++ {
					u = append(u, math.Float64bits(b.Min(d)), math.Float64bits(b.Max(d)))
				}
				return u
			}
			fs := it.fc.Features
			s = append(s, []uint64{b2u(fs == nil), uint64(len(fs)), uint64(cap(fs))}, boxU(it.fc.BBox))
			for _, f := range fs[:cap(fs)] {
				if f == nil {
					s = append(s, []uint64{0})
					continue
				}
				s = append(s, []uint64{1, b2u(f.Geometry == nil), b2u(f.Properties == nil), uint64(len(f.Properties)), uint64(core.HashString(fmt.Sprint(f.ID)))}, boxU(f.BBox))
			}
			if it.g != nil {
				snapGeom(it.g, &s)
			}
		case "o:gj", "o:wktenc", "o:wkbopt":
			s = append(s, []uint64{0}) // opaque option values: nothing observable
		default:
			s = append(s, []uint64{uint64(core.HashString(it.s))})
		}
		out[i] = s
	}
	return out
}

// diffSnap returns the index of the first pool item that changed and a
// description, or -1.
func diffSnap(a, b []snap) (int, string) {
	for i := range a {
		if len(a[i]) != len(b[i]) {
			return i, "structure changed"
		}
		for j := range a[i] {
			if len(a[i][j]) != len(b[i][j]) {
				return i, fmt.Sprintf("part %d changed length %d -> %d", j, len(a[i][j]), len(b[i][j]))
			}
			for k := range a[i][j] {
				if a[i][j][k] != b[i][j][k] {
					return i, fmt.Sprintf("part %d element %d changed %#x -> %#x", j, k-1, a[i][j][k], b[i][j][k])
				}
			}
		}
	}
	return -1, ""
}

// ---- execution ------------------------------------------------------------------------

// storeF and storeB write through a pointer in a function of their own, so
// that the compiler cannot drop the store of a value that is already there.
//
//go:noinline
func storeF(p *float64, v float64) { *p = v }

//go:noinline
func storeB(p *byte, v byte) { *p = v }

// touchArgs is the caller using its own arguments again as soon as a call has
// returned: every float and byte of the arguments is written (with the value
// it holds, so nothing changes). Library code that still reads an argument
// after it returned — a worker goroutine that was not waited for — then races
// with these writes in the -race worker. Only the solo phase does this: there
// the arguments belong to the one caller.
func touchArgs(args []*item) {
	for _, a := range args {
		for i := range a.f {
			storeF(&a.f[i], a.f[i])
		}
		for i := range a.c {
			storeF(&a.c[i], a.c[i])
		}
		for i := range a.b {
			storeB(&a.b[i], a.b[i])
		}
		if a.g != nil {
			if _, coll := a.g.(*geom.GeometryCollection); !coll {
				fc := a.g.FlatCoords()
				for i := range fc {
					storeF(&fc[i], fc[i])
				}
			}
		}
	}
}

func runCall(c *Call, items []*item, touch bool) (out string) {
	f := table[tableIndex[c.Fn]]
	args := make([]*item, len(c.A))
	for i, ai := range c.A {
		args[i] = items[ai]
	}
	defer func() {
		if r := recover(); r != nil {
			out = scrub(fmt.Sprintf("panic: %v", r))
		}
	}()
	v := f.f(c, args)
	if touch {
		touchArgs(args)
	}
	out = canon(v)
	if !returnsView[c.Fn] && !aliasesArgs(v, args) {
		// the result is the caller's: it is overwritten right away. A result
		// that is really part of an argument or of hidden shared state then
		// shows up as a changed argument, a changed later result or a race.
		scribbleResult(v)
	}
	return out
}

// returnsView names the calls whose results are documented views into their
// argument (part accessors, sub-line strings); those are left alone.
var returnsView = map[string]bool{"T.Part": true, "LineString.SubLineString": true}

// span is the address range of a slice's backing array up to its capacity.
type span struct{ lo, hi uintptr }

func spanF(f []float64) span {
	if cap(f) == 0 {
		return span{}
	}
	p := uintptr(unsafe.Pointer(unsafe.SliceData(f)))
	return span{p, p + 8*uintptr(cap(f))}
}

func spanB(b []byte) span {
	if cap(b) == 0 {
		return span{}
	}
	p := uintptr(unsafe.Pointer(unsafe.SliceData(b)))
	return span{p, p + uintptr(cap(b))}
}

func (a span) meets(b span) bool { return a.lo < b.hi && b.lo < a.hi && a.lo != a.hi && b.lo != b.hi }

func geomSpans(g geom.T, out *[]span) {
	if g == nil {
		return
	}
	if gc, ok := g.(*geom.GeometryCollection); ok {
		if gc != nil {
			for _, c := range gc.Geoms() {
				geomSpans(c, out)
			}
		}
		return
	}
	defer func() { _ = recover() }() // typed nil pointers
	*out = append(*out, spanF(g.FlatCoords()))
}

func valueSpans(v any, out *[]span) {
	switch t := v.(type) {
	case []float64:
		*out = append(*out, spanF(t))
	case geom.Coord:
		*out = append(*out, spanF(t))
	case []byte:
		*out = append(*out, spanB(t))
	case geom.T:
		geomSpans(t, out)
	case []any:
		for _, x := range t {
			valueSpans(x, out)
		}
	}
}

// aliasesArgs reports whether any coordinate or byte storage of the result
// lies inside storage of an argument: some functions return (parts of) their
// argument for trivial inputs, which the property does not forbid; such a
// result is not overwritten (that would be the harness changing the argument).
func aliasesArgs(v any, args []*item) bool {
	var rs, as []span
	valueSpans(v, &rs)
	if len(rs) == 0 {
		return false
	}
	for _, a := range args {
		switch a.kind {
		case "g":
			geomSpans(a.g, &as)
		case "c":
			as = append(as, spanF(a.c))
		case "f":
			as = append(as, spanF(a.f))
		case "b", "j", "i":
			as = append(as, spanB(a.b))
		}
	}
	for _, r := range rs {
		for _, a := range as {
			if r.meets(a) {
				return true
			}
		}
	}
	return false
}

func scribbleResult(v any) {
	switch t := v.(type) {
	case []float64:
		for i := range t {
			t[i] = -9.75e9
		}
	case geom.Coord:
		for i := range t {
			t[i] = -9.75e9
		}
	case []int:
		for i := range t {
			t[i] = -99
		}
	case []byte:
		for i := range t {
			t[i] = 0xa5
		}
	case geom.T:
		scribbleGeom(t)
	case []any:
		for _, x := range t {
			scribbleResult(x)
		}
	}
}

func scribbleGeom(g geom.T) {
	if g == nil {
		return
	}
	switch t := g.(type) {
	case *geom.GeometryCollection:
		if t == nil {
			return
		}
		for _, c := range t.Geoms() {
			scribbleGeom(c)
		}
		return
	case *geom.Point:
		if t == nil {
			return
		}
	case *geom.LineString:
		if t == nil {
			return
		}
	case *geom.LinearRing:
		if t == nil {
			return
		}
	case *geom.Polygon:
		if t == nil {
			return
		}
	case *geom.MultiPoint:
		if t == nil {
			return
		}
	case *geom.MultiLineString:
		if t == nil {
			return
		}
	case *geom.MultiPolygon:
		if t == nil {
			return
		}
	}
	fc := g.FlatCoords()
	for i := range fc {
		fc[i] = -9.75e9
	}
}

func short(s string) string {
	if len(s) > 240 {
		return s[:240] + "..."
	}
	return s
}

func (prop) Execute(scAny any, phase string, log *core.Log) core.Result {
	s := scAny.(*Scenario)
	var res core.Result
	items, err := buildPool(s.Pool)
	if err != nil {
		res.Invalid = true
		return res
	}
	if s.MaxProcs > 0 {
		defer runtime.GOMAXPROCS(runtime.GOMAXPROCS(s.MaxProcs))
	}
	// Corrupted decoder inputs may claim huge counts; the element limits are
	// configuration (only read by library code) and are set before any
	// goroutine starts.
	defer wkbadapt.SetLimits(refwkb.Limits{0, 512, 512, 512})()
	if s.DefLayout != 0 {
		old := geojson.DefaultLayout
		geojson.DefaultLayout = geom.Layout(s.DefLayout)
		defer func() { geojson.DefaultLayout = old }()
		res.Count("probe:geojson-default-layout-set", 1)
	}
	if s.MaxProcs == 1 {
		res.Count("probe:maxprocs=1", 1)
	}
	if s.BigGeom {
		res.Count("probe:large-multi-part-geometry", 1)
	}
	for i := range s.Pool {
		if s.Pool[i].K == "f" && len(s.Pool[i].F) >= 2049 {
			res.Count("probe:flat-line>=2048-segments", 1)
			break
		}
	}
	if len(s.Workers) >= 8 {
		res.Count("probe:workers>=8", 1)
	}
	// Phase "cold": the scenario has a process of its own and the concurrent
	// part comes first, so that the workers' calls are the process's first use
	// of the library (lazily initialised state is initialised concurrently).
	cold := phase == "cold"
	var results [][]string
	var beforeConc []snap
	concurrent := func() {
		beforeConc = snapshot(items)
		results = make([][]string, len(s.Workers))
		var wg sync.WaitGroup
		start := make(chan struct{})
		for w := range s.Workers {
			results[w] = make([]string, len(s.Workers[w]))
			wg.Add(1)
			go func(w int) {
				defer wg.Done()
				<-start
				for k, st := range s.Workers[w] {
					for y := 0; y < st.Yield; y++ {
						runtime.Gosched()
					}
					results[w][k] = runCall(&s.Calls[st.Call], items, false)
				}
			}(w)
		}
		close(start)
		wg.Wait()
	}
	if cold {
		res.Count("probe:cold-start", 1)
		concurrent()
		if i, d := diffSnap(beforeConc, snapshot(items)); i >= 0 {
			res.Fail("argument-mutated", "argument-mutated:concurrent", "after the concurrent phase (first use of the library in this process) pool item %d (kind %s) differs: %s", i, s.Pool[i].K, d)
			return res
		}
	}
	// --- solo phase
	solo := make([]string, len(s.Calls))
	for ci := range s.Calls {
		c := &s.Calls[ci]
		before := snapshot(items)
		r1 := runCall(c, items, true)
		after := snapshot(items)
		res.Steps++
		if i, d := diffSnap(before, after); i >= 0 {
			res.Fail("argument-mutated", "argument-mutated:"+c.Fn, "%s modified its argument (pool item %d, kind %s): %s; call %+v", c.Fn, i, s.Pool[i].K, d, *c)
			return res
		}
		if strings.Contains(r1, "ERROR-TEXT-DIFFERS-BETWEEN-READERS") {
			res.Fail("not-deterministic", "error-text-differs-between-readers:"+c.Fn, "the error %s returned renders differently for two goroutines that read it at the same time: %s", c.Fn, short(r1))
			return res
		}
		if strings.Contains(r1, "CALLER-SLICE-CLOBBERED") {
			res.Fail("argument-mutated", "argument-mutated:"+c.Fn, "%s wrote into the slice the caller passed as its variadic argument (beyond or inside its length); call %+v", c.Fn, *c)
			return res
		}
		r2 := runCall(c, items, true)
		res.Steps++
		if r1 != r2 {
			res.Fail("not-deterministic", "not-deterministic:"+c.Fn, "%s returned different results on two identical solo calls:\n  %s\n  %s", c.Fn, short(r1), short(r2))
			return res
		}
		if i, d := diffSnap(before, snapshot(items)); i >= 0 {
			res.Fail("argument-mutated", "argument-mutated:"+c.Fn, "%s modified its argument on the second call (pool item %d): %s", c.Fn, i, d)
			return res
		}
		if strings.HasPrefix(r1, "panic:") {
			res.Count("probe:panic-as-result", 1)
		}
		solo[ci] = r1
		log.Addf("solo %d %s%v -> %016x", ci, c.Fn, c.A, core.HashString(r1))
		reach(&res, c, items)
	}
	// --- overlap measure
	users := map[int]map[int]bool{} // pool index -> workers
	callWorkers := map[int]map[int]bool{}
	yields := 0
	for w, prog := range s.Workers {
		for _, st := range prog {
			yields += st.Yield
			if callWorkers[st.Call] == nil {
				callWorkers[st.Call] = map[int]bool{}
			}
			callWorkers[st.Call][w] = true
			for _, ai := range s.Calls[st.Call].A {
				if users[ai] == nil {
					users[ai] = map[int]bool{}
				}
				users[ai][w] = true
			}
		}
	}
	shared := 0
	for _, ws := range users {
		if len(ws) >= 2 {
			shared++
		}
	}
	same := 0
	wktParsers := 0
	for ci, ws := range callWorkers {
		if len(ws) >= 2 {
			same++
		}
		if s.Calls[ci].Fn == "wkt.Unmarshal" {
			wktParsers += len(ws)
		}
	}
	for ai, ws := range users {
		if len(ws) >= 2 && strings.HasPrefix(s.Pool[ai].K, "o:") {
			res.Count("probe:shared-option-value-on->=2-workers", 1)
		}
	}
	if wktParsers >= 4 {
		res.Count("probe:wkt-parse-x>=4", 1)
	}
	res.Count("shared-argument-overlap", int64(shared))
	res.Count("same-call-on->=2-workers", int64(same))
	res.Count("gosched-yields", int64(yields))
	// decoder and encoder on the same bytes/geometry
	encDec := map[int][2]bool{}
	for _, c := range s.Calls {
		for _, ai := range c.A {
			v := encDec[ai]
			if strings.Contains(c.Fn, "Unmarshal") || strings.Contains(c.Fn, "Read") || strings.Contains(c.Fn, "Decode") || strings.Contains(c.Fn, "Scan") {
				v[0] = true
			} else {
				v[1] = true
			}
			encDec[ai] = v
		}
	}
	for _, v := range encDec {
		if v[0] && v[1] {
			res.Count("probe:decoder-and-encoder-share-bytes", 1)
		}
	}
	// --- concurrent phase
	if !cold {
		concurrent()
	}
	before := beforeConc
	for w := range s.Workers {
		for k, st := range s.Workers[w] {
			res.Steps++
			if results[w][k] != solo[st.Call] {
				c := s.Calls[st.Call]
				res.Fail("concurrent-result-differs", "concurrent-result-differs:"+c.Fn, "worker %d step %d: %s returned\n  %s\nconcurrently but\n  %s\nalone", w, k, c.Fn, short(results[w][k]), short(solo[st.Call]))
				return res
			}
			log.Addf("worker %d step %d call %d ok", w, k, st.Call)
		}
	}
	if i, d := diffSnap(before, snapshot(items)); i >= 0 && !cold {
		res.Fail("argument-mutated", "argument-mutated:concurrent", "after the concurrent phase pool item %d (kind %s) differs: %s", i, s.Pool[i].K, d)
		return res
	}
	res.Nontrivial = shared > 0
	// state key: function pairs that overlapped on a shared argument
	pairs := map[string]bool{}
	for ai, ws := range users {
		if len(ws) < 2 {
			continue
		}
		var fns []string
		seen := map[string]bool{}
		for _, c := range s.Calls {
			for _, x := range c.A {
				if x == ai && !seen[c.Fn] {
					seen[c.Fn] = true
					fns = append(fns, c.Fn)
				}
			}
		}
		for i := range fns {
			for j := i; j < len(fns); j++ {
				a, b := fns[i], fns[j]
				if a > b {
					a, b = b, a
				}
				pairs[a+"+"+b] = true
			}
		}
	}
	var ps []string
	for p := range pairs {
		ps = append(ps, p)
	}
	sortStrings(ps)
	for _, p := range ps {
		res.Count("pair:"+p, 1)
	}
	res.StateKey = fmt.Sprintf("%d|%d|%s", s.MaxProcs, len(s.Workers), strings.Join(ps, ","))
	return res
}

func sortStrings(s []string) {
	for i := 1; i < len(s); i++ {
		for j := i; j > 0 && s[j] < s[j-1]; j-- {
			s[j], s[j-1] = s[j-1], s[j]
		}
	}
}

func reach(res *core.Result, c *Call, items []*item) {
	for _, ai := range c.A {
		if it := items[ai]; it.kind == "g" && it.g != nil {
			if _, isGC := it.g.(*geom.GeometryCollection); !isGC && (it.g.Layout() == geom.NoLayout || it.g.Layout() > geom.XYZM) {
				res.Count("probe:geometry-with-layout-none-or->XYZM", 1)
				if strings.Contains(c.Fn, "shared-") {
					res.Count("probe:refused-geometry-meets-shared-option-value", 1)
				}
			}
		}
	}
	if c.Fn != "xy.ConvexHullFlat" && c.Fn != "xy.ConvexHull" {
		return
	}
	it := items[c.A[0]]
	var f []float64
	st := 0
	if it.kind == "f" {
		f, st = it.f, it.layout.Stride()
	} else {
		f, st = it.g.FlatCoords(), it.g.Stride()
	}
	if st == 0 || len(f)/st <= 50 {
		return
	}
	res.Count("probe:hull>50pts", 1)
	distinct := map[[2]float64]bool{}
	for i := 0; i+1 < len(f); i += st {
		distinct[[2]float64{f[i], f[i+1]}] = true
	}
	if len(distinct) <= 2 {
		res.Count("probe:hull-degenerate-octagon", 1)
	}
}

// ---- generation ---------------------------------------------------------------------------

type gen struct {
	r    *prng.Rand
	cfg  mgeom.GenCfg
	s    *Scenario
	pool []*item
}

func (g *gen) coord(n int) mgeom.Coord {
	c := make(mgeom.Coord, n)
	for i := range c {
		if g.r.Chance(0.5) {
			c[i] = mgeom.F(g.r.Range(-3, 3))
		} else {
			c[i] = mgeom.F(g.r.SmallFloat())
		}
	}
	return c
}

func (g *gen) pointSet(l int) []mgeom.Coord {
	st := mgeom.Stride(l)
	var n int
	mode := g.r.Intn(6)
	switch mode {
	case 0:
		n = g.r.Range(0, 4)
	case 1, 2:
		n = g.r.Range(51, 90)
	default:
		n = g.r.Range(3, 40)
	}
	if g.r.Chance(0.01) {
		// block-sized inputs (chunked, pooled or parallel fast paths engage)
		n = []int{128, 256, 512, 1024}[g.r.Intn(4)] + g.r.Range(-1, 1)
		if mode == 1 {
			mode = 5
		}
	}
	out := make([]mgeom.Coord, 0, n)
	switch {
	case mode == 1: // more than 50 points with very few distinct positions
		a, b := g.coord(st), g.coord(st)
		k := g.r.Range(1, 3)
		vals := []mgeom.Coord{a, b, g.coord(st)}[:k]
		for i := 0; i < n; i++ {
			out = append(out, append(mgeom.Coord(nil), vals[g.r.Intn(len(vals))]...))
		}
		if g.r.Chance(0.5) && k >= 2 {
			// blocks: all copies of a first, then all copies of b
			for i := range out {
				if i < n/2 {
					out[i] = append(mgeom.Coord(nil), vals[0]...)
				} else {
					out[i] = append(mgeom.Coord(nil), vals[1]...)
				}
			}
		}
	case mode == 3: // small grid, duplicate heavy
		for i := 0; i < n; i++ {
			c := make(mgeom.Coord, st)
			for j := range c {
				c[j] = mgeom.F(g.r.Range(0, 2))
			}
			out = append(out, c)
		}
	case mode == 4: // collinear
		d := g.coord(st)
		for i := 0; i < n; i++ {
			c := make(mgeom.Coord, st)
			k := float64(g.r.Range(-5, 5))
			for j := range c {
				c[j] = mgeom.F(k * float64(d[j]))
			}
			out = append(out, c)
		}
	default:
		for i := 0; i < n; i++ {
			out = append(out, g.coord(st))
		}
		if g.r.Chance(0.4) && n >= 3 { // closed ring
			out = append(out, append(mgeom.Coord(nil), out[0]...))
		}
	}
	return out
}

func (g *gen) geomOfType(t string) *mgeom.Geom {
	if t != mgeom.GC && g.r.Chance(0.01) {
		// a geometry created without a layout (it can only be empty)
		return (&mgeom.Geom{T: t, L: 0}).Norm()
	}
	l := 1 + g.r.Intn(4)
	if g.r.Chance(0.05) {
		l = 5 // a layout the text and binary encoders refuse: their error paths run next to successful calls
	}
	cfg := g.cfg
	cfg.ClosedRings = g.r.Chance(0.7)
	m := cfg.Gen(g.r, t, l, 0)
	if t != mgeom.GC && t != mgeom.Pt && l <= 4 && g.r.Chance(0.006) {
		// 1 100 ... 2 300 coordinates in two or three parts, ordinates that do
		// not add exactly: where a blocked or parallel path would engage
		big := cfg
		big.FloatMode = 3
		m = big.BigOfType(g.r, t, l, []int{1100, 2100, 2300}[g.r.Intn(3)])
	}
	if (t == mgeom.LS || t == mgeom.LR || t == mgeom.MPt) && g.r.Chance(0.3) {
		// hull-relevant sizes
		ps := g.pointSet(l)
		switch t {
		case mgeom.MPt:
			parts := make([][]mgeom.Coord, len(ps))
			for i := range ps {
				parts[i] = []mgeom.Coord{ps[i]}
			}
			m.P = [][][]mgeom.Coord{parts}
		default:
			m.P = [][][]mgeom.Coord{{ps}}
		}
	}
	if g.r.Chance(0.3) {
		m.S = mgeom.SRID(g.r)
	}
	if t == mgeom.GC && g.r.Chance(0.4) {
		// members that carry their own SRID (as members decoded from EWKB or
		// built by an application do)
		var rec func(m *mgeom.Geom)
		rec = func(m *mgeom.Geom) {
			for _, c := range m.G {
				if g.r.Chance(0.6) {
					c.S = []int{4326, 3857, 1, 1 << 31}[g.r.Intn(4)]
				}
				rec(c)
			}
		}
		rec(m)
	}
	return m
}

func (g *gen) newArg(kind string) Arg {
	r := g.r
	switch {
	case kind == "g":
		return Arg{K: "g", G: g.geomOfType(mgeom.AllTypes[r.Intn(len(mgeom.AllTypes))])}
	case kind == "g:flat":
		ts := []string{mgeom.Pt, mgeom.LS, mgeom.LR, mgeom.Pg, mgeom.MPt, mgeom.MLS, mgeom.MPg}
		return Arg{K: "g", G: g.geomOfType(ts[r.Intn(len(ts))])}
	case strings.HasPrefix(kind, "g:"):
		return Arg{K: "g", G: g.geomOfType(kind[2:])}
	case kind == "bd":
		ts := []string{mgeom.Pt, mgeom.LS, mgeom.Pg, mgeom.MPt}
		return Arg{K: "bd", G: g.geomOfType(ts[r.Intn(len(ts))])}
	case kind == "c":
		return Arg{K: "c", C: g.coord(r.Range(2, 4))}
	case kind == "c3":
		return Arg{K: "c", C: g.coord(r.Range(3, 4))}
	case kind == "f":
		l := 1 + r.Intn(4)
		return Arg{K: "f", L: l, F: g.pointSet(l), Cap: []int{0, 0, 3, 8, 40}[r.Intn(5)]}
	case kind == "b" || kind == "s:hex":
		m := g.geomOfType(mgeom.AllTypes[r.Intn(len(mgeom.AllTypes))])
		stripMemberSRID(m)
		codec := refwkb.Codec{EWKB: r.Chance(0.5), NaN: true, BE: r.Chance(0.5)}
		if !codec.EWKB {
			m.S = 0
		}
		b, _, err := refwkb.Encode(codec, m)
		if err != nil {
			b = []byte{1, 1, 0, 0, 0}
		}
		if r.Chance(0.25) && len(b) > 0 { // corrupted input
			b = append([]byte(nil), b...)
			switch r.Intn(3) {
			case 0:
				b = b[:r.Intn(len(b))]
			case 1:
				b[r.Intn(len(b))] ^= 1 << uint(r.Intn(8))
			case 2:
				b = append(b, 7, 7)
			}
		}
		if kind == "s:hex" {
			return Arg{K: "s:hex", S: hex.EncodeToString(b)}
		}
		if r.Chance(0.05) {
			// text where binary is expected: the bytes are the hex text of the
			// encoding (what a driver on a text protocol hands over), its
			// upper-case form, or the geometry's WKT
			switch r.Intn(3) {
			case 0:
				b = []byte(hex.EncodeToString(b))
			case 1:
				b = []byte(strings.ToUpper(hex.EncodeToString(b)))
			default:
				b = []byte(m.WKT())
			}
		}
		return Arg{K: "b", Hex: hex.EncodeToString(b), Cap: []int{0, 0, 5, 16}[r.Intn(4)]}
	case kind == "s:wkt":
		m := g.geomOfType(mgeom.AllTypes[r.Intn(len(mgeom.AllTypes))])
		s := m.WKT()
		if r.Chance(0.25) && len(s) > 2 {
			i := r.Intn(len(s))
			s = s[:i] + string("(),Z M E1x"[r.Intn(10)]) + s[i+1:]
		}
		if r.Chance(0.06) {
			// bytes that text from elsewhere carries: NUL padding, other
			// control characters, a byte-order mark, a no-break
			// space - replacing a character or put in between
			junk := []string{"\x00", "\x00\x00", "\x01", "\x7f", "\ufeff", "\u00a0", "\x0c", "\x1a", "\r"}[r.Intn(9)] // (valid UTF-8 only: the scenario travels as JSON)
			i := r.Intn(len(s) + 1)
			if r.Chance(0.5) && i < len(s) {
				s = s[:i] + junk + s[i+1:]
			} else {
				s = s[:i] + junk + s[i:]
			}
		}
		return Arg{K: "s:wkt", S: s}
	case kind == "j":
		m := g.geomOfType(mgeom.AllTypes[r.Intn(len(mgeom.AllTypes))])
		s := m.GeoJSON()
		if r.Chance(0.2) && len(s) > 2 {
			s = s[:r.Intn(len(s))]
		}
		return Arg{K: "j", S: s, Cap: []int{0, 0, 7}[r.Intn(3)]}
	case kind == "i":
		return Arg{K: "i", S: c19.GenText(r), Cap: []int{0, 0, 9}[r.Intn(3)]}
	case kind == "fc":
		a := Arg{K: "fc", N: r.Range(-1, 3), BBox: r.Chance(0.3), Props: r.Chance(0.5)}
		if r.Chance(0.85) {
			a.G = g.geomOfType(g.cfg.Types[r.Intn(len(g.cfg.Types))])
		}
		return a
	case kind == "o:gj":
		return Arg{K: "o:gj", Digits: []int{-1, 0, 2, 3, 7}[r.Intn(5)], BBox: r.Chance(0.4)}
	case kind == "o:wktenc":
		return Arg{K: "o:wktenc", Digits: []int{-1, 0, 2, 3, 7}[r.Intn(5)]}
	case kind == "o:wkbopt":
		return Arg{K: "o:wkbopt", NaN: r.Chance(0.6)}
	}
	panic("c17: no generator for kind " + kind)
}

func stripMemberSRID(m *mgeom.Geom) {
	for _, c := range m.G {
		c.S = 0
		stripMemberSRID(c)
	}
}

func (g *gen) argFor(kind string) int {
	// reuse an existing pool item with probability 0.75
	var fits []int
	for i, it := range g.pool {
		if matches(kind, it) {
			fits = append(fits, i)
		}
	}
	if len(fits) > 0 && g.r.Chance(0.75) {
		return fits[g.r.Intn(len(fits))]
	}
	for tries := 0; ; tries++ {
		a := g.newArg(kind)
		items, err := buildPool([]Arg{a})
		if err != nil || !matches(kind, items[0]) {
			if tries > 20 {
				panic(fmt.Sprintf("c17: cannot generate argument of kind %s: %v", kind, err))
			}
			continue
		}
		g.s.Pool = append(g.s.Pool, a)
		g.pool = append(g.pool, items[0])
		return len(g.pool) - 1
	}
}

func (prop) Generate(r *prng.Rand, phase string) any {
	s := &Scenario{MaxProcs: []int{1, 2, 4, 16}[r.Intn(4)]}
	if (phase == "race" || phase == "cold") && s.MaxProcs == 1 {
		// With one P the workers run one after the other and incidental
		// happens-before edges (sync.Pool inside encoding/json and fmt under
		// -race) can order them; races then go unreported and unreproduced.
		s.MaxProcs = 8
	}
	if r.Chance(0.2) {
		s.DefLayout = 1 + r.Intn(4)
	}
	g := &gen{r: r, s: s}
	g.cfg = mgeom.SwarmCfg(r, []int{1, 2, 3, 4})
	g.cfg.FloatMode = []int{0, 0, 0, 3}[r.Intn(4)] // mostly small values; one run in four moderate values of full precision (results that round). Not the extremes: upstream's hull does not terminate on ordinates near MaxFloat64, see DESIGN 9.1
	g.cfg.Types = mgeom.AllTypes
	g.cfg.ShareMembers = true
	if g.cfg.MaxCoords > 8 && g.cfg.ExactCoords == 0 {
		g.cfg.MaxCoords = 8
	}
	g.cfg.MaxDepth = r.Range(0, 2)
	// function subset of this run (swarm)
	var fns []int
	if r.Chance(0.5) {
		for i := r.Range(1, 4); i > 0; i-- {
			fns = append(fns, r.Intn(len(table)))
		}
	} else {
		for i := range table {
			fns = append(fns, i)
		}
	}
	if r.Chance(0.35) {
		fns = append(fns, tableIndex["xy.ConvexHullFlat"], tableIndex["xy.ConvexHull"], tableIndex["transform.UniqueCoords"])
	}
	ncalls := r.Range(1, 6)
	for i := 0; i < ncalls; i++ {
		f := table[fns[r.Intn(len(fns))]]
		c := Call{Fn: f.name, I: r.Intn(64), X: mgeom.F(float64(r.Range(0, 20)) / 4)}
		for _, k := range f.kinds {
			c.A = append(c.A, g.argFor(k))
		}
		s.Calls = append(s.Calls, c)
		if strings.Contains(f.name, "shared-") && len(f.kinds) == 2 && f.kinds[0] == "g" && r.Chance(0.3) {
			// the same long-lived option value also meets a geometry that the
			// encoder refuses (a layout beyond XYZM, or none): its error path
			// runs next to the successful calls
			bad := Arg{K: "g"}
			if r.Chance(0.3) {
				bad.G = (&mgeom.Geom{T: mgeom.LS, L: 0}).Norm()
			} else {
				bad.G = g.cfg.Gen(r, mgeom.LS, 5, 0)
			}
			if items, err := buildPool([]Arg{bad}); err == nil {
				g.s.Pool = append(g.s.Pool, bad)
				g.pool = append(g.pool, items[0])
				s.Calls = append(s.Calls, Call{Fn: f.name, A: []int{len(g.pool) - 1, c.A[1]}, I: c.I, X: c.X})
			}
		}
	}
	if r.Chance(0.02) {
		// a large multi-part geometry (1 100 ... 2 300 coordinates of full
		// precision) and the whole-geometry functions on it: where a library
		// would switch to a blocked or parallel path
		t := []string{mgeom.MPg, mgeom.MPg, mgeom.Pg, mgeom.MLS, mgeom.LS, mgeom.MPt}[r.Intn(6)]
		big := g.cfg
		big.FloatMode = 3
		a := Arg{K: "g", G: big.BigOfType(r, t, 1+r.Intn(4), []int{1100, 2100, 2300}[r.Intn(3)])}
		if items, err := buildPool([]Arg{a}); err == nil {
			g.s.Pool = append(g.s.Pool, a)
			g.pool = append(g.pool, items[0])
			names := []string{"T.Area", "T.Length", "T.Bounds", "xy.Centroid", "T.Clone", "T.Coords", "wkb.Marshal", "geojson.Marshal", "wkt.Marshal"}
			for i := r.Range(2, 3); i > 0; i-- {
				n := names[r.Intn(len(names))]
				if ti, ok := tableIndex[n]; ok && len(table[ti].kinds) == 1 {
					s.Calls = append(s.Calls, Call{Fn: n, A: []int{len(g.pool) - 1}, I: r.Intn(64)})
				}
			}
			s.BigGeom = true
		}
	}
	if r.Chance(0.02) {
		// a long flat line (2 100 ... 6 500 coordinates) with a query point on
		// one of its first segments, and the flat-coordinate functions on it:
		// where a library would split the scan between goroutines and return
		// as soon as one of them has the answer
		l := 1 + r.Intn(4)
		st := mgeom.Stride(l)
		n := []int{2100, 4200, 6500, 8200, 16400}[r.Intn(5)] + r.Range(-2, 2)
		line := make([]mgeom.Coord, 0, n)
		for i := 0; i < n; i++ {
			c := make(mgeom.Coord, st)
			c[0] = mgeom.F(float64(i))
			c[1] = mgeom.F(float64(r.Range(-3, 3)))
			for j := 2; j < st; j++ {
				c[j] = mgeom.F(float64(r.Range(-3, 3)))
			}
			line = append(line, c)
		}
		if r.Chance(0.5) {
			// the vertex farthest from the chord lies at one end of the line:
			// a divide-and-conquer scan gets one trivial half
			k := []int{1, n - 2}[r.Intn(2)]
			line[k][1] = mgeom.F(1e6)
		}
		at := r.Range(0, 8)
		if r.Chance(0.2) {
			at = r.Intn(n)
		}
		pt := append(mgeom.Coord(nil), line[at][:2]...)
		fa := Arg{K: "f", L: l, F: line, Cap: []int{0, 3}[r.Intn(2)]}
		ca := Arg{K: "c", C: pt}
		if items, err := buildPool([]Arg{fa, ca}); err == nil {
			g.s.Pool = append(g.s.Pool, fa, ca)
			g.pool = append(g.pool, items...)
			fi, ci := len(g.pool)-2, len(g.pool)-1
			s.Calls = append(s.Calls, Call{Fn: "xy.IsOnLine", A: []int{fi, ci}})
			names := []string{"xy.RingPredicates", "xy.IsRingCounterClockwise", "xy.PointsCentroidFlat", "xy.SimplifyFlatCoords"}
			for i := r.Range(0, 2); i > 0; i-- {
				nm := names[r.Intn(len(names))]
				if n >= 8000 && i == 1 {
					nm = "xy.SimplifyFlatCoords"
				}
				c := Call{Fn: nm, A: []int{fi}, I: r.Intn(64), X: mgeom.F(float64(r.Range(0, 20)) / 4)}
				if len(table[tableIndex[nm]].kinds) == 2 {
					c.A = append(c.A, ci)
				}
				s.Calls = append(s.Calls, c)
			}
			s.BigGeom = true
		}
	}
	nw := r.Range(2, 4)
	if phase == "plain" || r.Chance(0.3) {
		nw = r.Range(2, 16)
	}
	for w := 0; w < nw; w++ {
		var prog []Step
		n := r.Range(1, 6)
		for k := 0; k < n; k++ {
			st := Step{Call: r.Intn(len(s.Calls))}
			if r.Chance(0.3) {
				st.Yield = r.Range(1, 4)
			}
			prog = append(prog, st)
		}
		s.Workers = append(s.Workers, prog)
	}
	return s
}
