// Package wkbadapt gives the simulators one face for the library's two binary
// codecs (wkb with its options, ewkb), their hex variants and their
// database/sql wrappers. It contains no logic of its own.
package wkbadapt

import (
	"database/sql/driver"
	"encoding/binary"
	"fmt"
	"io"

	geom "github.com/twpayne/go-geom"
	"github.com/twpayne/go-geom/encoding/ewkb"
	"github.com/twpayne/go-geom/encoding/ewkbhex"
	"github.com/twpayne/go-geom/encoding/wkb"
	"github.com/twpayne/go-geom/encoding/wkbcommon"
	"github.com/twpayne/go-geom/encoding/wkbhex"

	"verif/sim/mgeom"
	"verif/sim/refwkb"
)

// Lib is the library codec selected by a refwkb.Codec.
type Lib struct{ C refwkb.Codec }

func (l Lib) order() binary.ByteOrder {
	if l.C.BE {
		return wkb.XDR
	}
	return wkb.NDR
}

func (l Lib) opts() []wkbcommon.WKBOption {
	// as an application with a configuration setting does it: one call site,
	// the mode in a variable (the default mode is also passed explicitly for
	// every second byte order, otherwise left out)
	mode := wkbcommon.EmptyPointHandlingError
	if l.C.NaN {
		mode = wkbcommon.EmptyPointHandlingNaN
	} else if !l.C.BE {
		return nil
	}
	return []wkbcommon.WKBOption{wkbcommon.WKBOptionEmptyPointHandling(mode)}
}

// Write encodes g to w.
func (l Lib) Write(w io.Writer, g geom.T) error {
	if l.C.EWKB {
		return ewkb.Write(w, l.order(), g)
	}
	return wkb.Write(w, l.order(), g, l.opts()...)
}

// Read decodes one geometry from r.
func (l Lib) Read(r io.Reader) (geom.T, error) {
	if l.C.EWKB {
		return ewkb.Read(r)
	}
	return wkb.Read(r, l.opts()...)
}

// Marshal encodes g to bytes.
func (l Lib) Marshal(g geom.T) ([]byte, error) {
	if l.C.EWKB {
		return ewkb.Marshal(g, l.order())
	}
	return wkb.Marshal(g, l.order(), l.opts()...)
}

// Unmarshal decodes bytes.
func (l Lib) Unmarshal(b []byte) (geom.T, error) {
	if l.C.EWKB {
		return ewkb.Unmarshal(b)
	}
	return wkb.Unmarshal(b, l.opts()...)
}

// HexEncode encodes g to a hex string.
func (l Lib) HexEncode(g geom.T) (string, error) {
	if l.C.EWKB {
		return ewkbhex.Encode(g, l.order())
	}
	return wkbhex.Encode(g, l.order(), l.opts()...)
}

// HexDecode decodes a hex string.
func (l Lib) HexDecode(s string) (geom.T, error) {
	if l.C.EWKB {
		return ewkbhex.Decode(s)
	}
	return wkbhex.Decode(s, l.opts()...)
}

// HasSQL reports whether the SQL wrappers can be used with this codec (the
// wkb wrappers cannot be given options from outside their package, and always
// write NDR).
func (l Lib) HasSQL() bool { return l.C.EWKB || !l.C.NaN }

// Kinds are the wrapper kinds.
var Kinds = []string{mgeom.Pt, mgeom.LS, mgeom.Pg, mgeom.MPt, mgeom.MLS, mgeom.MPg, mgeom.GC}

// Scan scans src into a fresh SQL wrapper of the given kind ("Geom" is wkb's
// untyped wrapper) and returns the geometry it then holds.
func (l Lib) Scan(kind string, src any) (geom.T, error) {
	if l.C.EWKB {
		switch kind {
		case mgeom.Pt:
			var w ewkb.Point
			err := w.Scan(src)
			if w.Valid() != (w.Point != nil) {
				return nil, fmt.Errorf("wkbadapt: after Scan, Valid() = %v although the wrapper holds a geometry: %v", w.Valid(), w.Point != nil)
			}
			if err != nil || w.Point == nil {
				return nil, err
			}
			return w.Point, err
		case mgeom.LS:
			var w ewkb.LineString
			err := w.Scan(src)
			if w.Valid() != (w.LineString != nil) {
				return nil, fmt.Errorf("wkbadapt: after Scan, Valid() = %v although the wrapper holds a geometry: %v", w.Valid(), w.LineString != nil)
			}
			if err != nil || w.LineString == nil {
				return nil, err
			}
			return w.LineString, err
		case mgeom.Pg:
			var w ewkb.Polygon
			err := w.Scan(src)
			if w.Valid() != (w.Polygon != nil) {
				return nil, fmt.Errorf("wkbadapt: after Scan, Valid() = %v although the wrapper holds a geometry: %v", w.Valid(), w.Polygon != nil)
			}
			if err != nil || w.Polygon == nil {
				return nil, err
			}
			return w.Polygon, err
		case mgeom.MPt:
			var w ewkb.MultiPoint
			err := w.Scan(src)
			if w.Valid() != (w.MultiPoint != nil) {
				return nil, fmt.Errorf("wkbadapt: after Scan, Valid() = %v although the wrapper holds a geometry: %v", w.Valid(), w.MultiPoint != nil)
			}
			if err != nil || w.MultiPoint == nil {
				return nil, err
			}
			return w.MultiPoint, err
		case mgeom.MLS:
			var w ewkb.MultiLineString
			err := w.Scan(src)
			if w.Valid() != (w.MultiLineString != nil) {
				return nil, fmt.Errorf("wkbadapt: after Scan, Valid() = %v although the wrapper holds a geometry: %v", w.Valid(), w.MultiLineString != nil)
			}
			if err != nil || w.MultiLineString == nil {
				return nil, err
			}
			return w.MultiLineString, err
		case mgeom.MPg:
			var w ewkb.MultiPolygon
			err := w.Scan(src)
			if w.Valid() != (w.MultiPolygon != nil) {
				return nil, fmt.Errorf("wkbadapt: after Scan, Valid() = %v although the wrapper holds a geometry: %v", w.Valid(), w.MultiPolygon != nil)
			}
			if err != nil || w.MultiPolygon == nil {
				return nil, err
			}
			return w.MultiPolygon, err
		case mgeom.GC:
			var w ewkb.GeometryCollection
			err := w.Scan(src)
			if w.Valid() != (w.GeometryCollection != nil) {
				return nil, fmt.Errorf("wkbadapt: after Scan, Valid() = %v although the wrapper holds a geometry: %v", w.Valid(), w.GeometryCollection != nil)
			}
			if err != nil || w.GeometryCollection == nil {
				return nil, err
			}
			return w.GeometryCollection, err
		}
		return nil, fmt.Errorf("wkbadapt: no ewkb wrapper %q", kind)
	}
	switch kind {
	case "Geom":
		var w wkb.Geom
		err := w.Scan(src)
		if err != nil || w.T == nil {
			return nil, err
		}
		return w.T, err
	case mgeom.Pt:
		var w wkb.Point
		err := w.Scan(src)
		if err != nil || w.Point == nil {
			return nil, err
		}
		return w.Point, err
	case mgeom.LS:
		var w wkb.LineString
		err := w.Scan(src)
		if err != nil || w.LineString == nil {
			return nil, err
		}
		return w.LineString, err
	case mgeom.Pg:
		var w wkb.Polygon
		err := w.Scan(src)
		if err != nil || w.Polygon == nil {
			return nil, err
		}
		return w.Polygon, err
	case mgeom.MPt:
		var w wkb.MultiPoint
		err := w.Scan(src)
		if err != nil || w.MultiPoint == nil {
			return nil, err
		}
		return w.MultiPoint, err
	case mgeom.MLS:
		var w wkb.MultiLineString
		err := w.Scan(src)
		if err != nil || w.MultiLineString == nil {
			return nil, err
		}
		return w.MultiLineString, err
	case mgeom.MPg:
		var w wkb.MultiPolygon
		err := w.Scan(src)
		if err != nil || w.MultiPolygon == nil {
			return nil, err
		}
		return w.MultiPolygon, err
	case mgeom.GC:
		var w wkb.GeometryCollection
		err := w.Scan(src)
		if err != nil || w.GeometryCollection == nil {
			return nil, err
		}
		return w.GeometryCollection, err
	}
	return nil, fmt.Errorf("wkbadapt: no wkb wrapper %q", kind)
}

// Value returns what the SQL wrapper matching g's type hands to a driver.
func (l Lib) Value(g geom.T) (driver.Value, error) {
	if l.C.EWKB {
		switch g := g.(type) {
		case *geom.Point:
			return (&ewkb.Point{Point: g}).Value()
		case *geom.LineString:
			return (&ewkb.LineString{LineString: g}).Value()
		case *geom.Polygon:
			return (&ewkb.Polygon{Polygon: g}).Value()
		case *geom.MultiPoint:
			return (&ewkb.MultiPoint{MultiPoint: g}).Value()
		case *geom.MultiLineString:
			return (&ewkb.MultiLineString{MultiLineString: g}).Value()
		case *geom.MultiPolygon:
			return (&ewkb.MultiPolygon{MultiPolygon: g}).Value()
		case *geom.GeometryCollection:
			return (&ewkb.GeometryCollection{GeometryCollection: g}).Value()
		}
		return nil, fmt.Errorf("wkbadapt: no ewkb wrapper for %T", g)
	}
	switch g := g.(type) {
	case *geom.Point:
		return (&wkb.Point{Point: g}).Value()
	case *geom.LineString:
		return (&wkb.LineString{LineString: g}).Value()
	case *geom.Polygon:
		return (&wkb.Polygon{Polygon: g}).Value()
	case *geom.MultiPoint:
		return (&wkb.MultiPoint{MultiPoint: g}).Value()
	case *geom.MultiLineString:
		return (&wkb.MultiLineString{MultiLineString: g}).Value()
	case *geom.MultiPolygon:
		return (&wkb.MultiPolygon{MultiPolygon: g}).Value()
	case *geom.GeometryCollection:
		return (&wkb.GeometryCollection{GeometryCollection: g}).Value()
	}
	return nil, fmt.Errorf("wkbadapt: no wkb wrapper for %T", g)
}

// Valuer returns the SQL wrapper matching g's type, holding g, for repeated use.
func (l Lib) Valuer(g geom.T) driver.Valuer {
	if l.C.EWKB {
		switch g := g.(type) {
		case *geom.Point:
			return &ewkb.Point{Point: g}
		case *geom.LineString:
			return &ewkb.LineString{LineString: g}
		case *geom.Polygon:
			return &ewkb.Polygon{Polygon: g}
		case *geom.MultiPoint:
			return &ewkb.MultiPoint{MultiPoint: g}
		case *geom.MultiLineString:
			return &ewkb.MultiLineString{MultiLineString: g}
		case *geom.MultiPolygon:
			return &ewkb.MultiPolygon{MultiPolygon: g}
		case *geom.GeometryCollection:
			return &ewkb.GeometryCollection{GeometryCollection: g}
		}
		return nil
	}
	switch g := g.(type) {
	case *geom.Point:
		return &wkb.Point{Point: g}
	case *geom.LineString:
		return &wkb.LineString{LineString: g}
	case *geom.Polygon:
		return &wkb.Polygon{Polygon: g}
	case *geom.MultiPoint:
		return &wkb.MultiPoint{MultiPoint: g}
	case *geom.MultiLineString:
		return &wkb.MultiLineString{MultiLineString: g}
	case *geom.MultiPolygon:
		return &wkb.MultiPolygon{MultiPolygon: g}
	case *geom.GeometryCollection:
		return &wkb.GeometryCollection{GeometryCollection: g}
	}
	return nil
}

// Scanner is one SQL wrapper used for several rows.
type Scanner struct {
	scan func(src any) error
	get  func() geom.T
}

// Scan scans the next row's value.
func (s *Scanner) Scan(src any) (geom.T, error) {
	if err := s.scan(src); err != nil {
		return nil, err
	}
	return s.get(), nil
}

func nilIf[T any](p *T, g geom.T) geom.T {
	if p == nil {
		return nil
	}
	return g
}

// NewScanner returns one wrapper of the given kind to be scanned into repeatedly.
func (l Lib) NewScanner(kind string) *Scanner {
	if l.C.EWKB {
		switch kind {
		case mgeom.Pt:
			w := &ewkb.Point{}
			return &Scanner{w.Scan, func() geom.T { return nilIf(w.Point, w.Point) }}
		case mgeom.LS:
			w := &ewkb.LineString{}
			return &Scanner{w.Scan, func() geom.T { return nilIf(w.LineString, w.LineString) }}
		case mgeom.Pg:
			w := &ewkb.Polygon{}
			return &Scanner{w.Scan, func() geom.T { return nilIf(w.Polygon, w.Polygon) }}
		case mgeom.MPt:
			w := &ewkb.MultiPoint{}
			return &Scanner{w.Scan, func() geom.T { return nilIf(w.MultiPoint, w.MultiPoint) }}
		case mgeom.MLS:
			w := &ewkb.MultiLineString{}
			return &Scanner{w.Scan, func() geom.T { return nilIf(w.MultiLineString, w.MultiLineString) }}
		case mgeom.MPg:
			w := &ewkb.MultiPolygon{}
			return &Scanner{w.Scan, func() geom.T { return nilIf(w.MultiPolygon, w.MultiPolygon) }}
		case mgeom.GC:
			w := &ewkb.GeometryCollection{}
			return &Scanner{w.Scan, func() geom.T { return nilIf(w.GeometryCollection, w.GeometryCollection) }}
		}
		return nil
	}
	switch kind {
	case "Geom":
		w := &wkb.Geom{}
		return &Scanner{w.Scan, func() geom.T { return w.T }}
	case mgeom.Pt:
		w := &wkb.Point{}
		return &Scanner{w.Scan, func() geom.T { return nilIf(w.Point, w.Point) }}
	case mgeom.LS:
		w := &wkb.LineString{}
		return &Scanner{w.Scan, func() geom.T { return nilIf(w.LineString, w.LineString) }}
	case mgeom.Pg:
		w := &wkb.Polygon{}
		return &Scanner{w.Scan, func() geom.T { return nilIf(w.Polygon, w.Polygon) }}
	case mgeom.MPt:
		w := &wkb.MultiPoint{}
		return &Scanner{w.Scan, func() geom.T { return nilIf(w.MultiPoint, w.MultiPoint) }}
	case mgeom.MLS:
		w := &wkb.MultiLineString{}
		return &Scanner{w.Scan, func() geom.T { return nilIf(w.MultiLineString, w.MultiLineString) }}
	case mgeom.MPg:
		w := &wkb.MultiPolygon{}
		return &Scanner{w.Scan, func() geom.T { return nilIf(w.MultiPolygon, w.MultiPolygon) }}
	case mgeom.GC:
		w := &wkb.GeometryCollection{}
		return &Scanner{w.Scan, func() geom.T { return nilIf(w.GeometryCollection, w.GeometryCollection) }}
	}
	return nil
}

// GenericValue is wkb.Geom's Value (the untyped wrapper), together with the
// geometry the wrapper says it holds.
func (l Lib) GenericValue(g geom.T) (driver.Value, geom.T, error) {
	w := &wkb.Geom{T: g}
	v, err := w.Value()
	return v, w.Geom(), err
}

// SetLimits installs the per-level element limits and returns a function that
// restores the previous ones.
func SetLimits(lim refwkb.Limits) func() {
	old := wkbcommon.MaxGeometryElements
	wkbcommon.MaxGeometryElements = [4]int(lim)
	return func() { wkbcommon.MaxGeometryElements = old }
}

// IsTooLarge reports whether err is the library's geometry-too-large error.
func IsTooLarge(err error) (level int, ok bool) {
	for e := err; e != nil; {
		if t, ok := e.(wkbcommon.ErrGeometryTooLarge); ok {
			return t.Level, true
		}
		if t, ok := e.(*wkbcommon.ErrGeometryTooLarge); ok {
			return t.Level, true
		}
		u, ok := e.(interface{ Unwrap() error })
		if !ok {
			break
		}
		e = u.Unwrap()
	}
	return 0, false
}

// NullRoundTrip scans SQL NULL into the ewkb wrapper of the given kind, which
// first holds g (a wrapper is reused from row to row), and reports what the
// wrapper says afterwards: whether it is valid, the value it hands to a driver
// and the error of either call.
func NullRoundTrip(kind string, g geom.T) (valid bool, val driver.Value, err error) {
	type wrapper interface {
		Scan(any) error
		Value() (driver.Value, error)
		Valid() bool
	}
	var w wrapper
	switch kind {
	case mgeom.Pt:
		x := &ewkb.Point{}
		x.Point, _ = g.(*geom.Point)
		w = x
	case mgeom.LS:
		x := &ewkb.LineString{}
		x.LineString, _ = g.(*geom.LineString)
		w = x
	case mgeom.Pg:
		x := &ewkb.Polygon{}
		x.Polygon, _ = g.(*geom.Polygon)
		w = x
	case mgeom.MPt:
		x := &ewkb.MultiPoint{}
		x.MultiPoint, _ = g.(*geom.MultiPoint)
		w = x
	case mgeom.MLS:
		x := &ewkb.MultiLineString{}
		x.MultiLineString, _ = g.(*geom.MultiLineString)
		w = x
	case mgeom.MPg:
		x := &ewkb.MultiPolygon{}
		x.MultiPolygon, _ = g.(*geom.MultiPolygon)
		w = x
	case mgeom.GC:
		x := &ewkb.GeometryCollection{}
		x.GeometryCollection, _ = g.(*geom.GeometryCollection)
		w = x
	default:
		return false, nil, fmt.Errorf("wkbadapt: no ewkb wrapper %q", kind)
	}
	if err := w.Scan(nil); err != nil {
		return w.Valid(), nil, err
	}
	val, err = w.Value()
	return w.Valid(), val, err
}
