// Package props links every property simulation into the binary.
package props

import (
	_ "verif/sim/c02"
	_ "verif/sim/c03"
	_ "verif/sim/c04"
	_ "verif/sim/c08"
	_ "verif/sim/c16"
	_ "verif/sim/c17"
	_ "verif/sim/c19"
)
