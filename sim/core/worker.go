package core

import (
	"bufio"
	"bytes"
	"os/exec"
	"strings"
	"encoding/binary"
	"encoding/json"
	"fmt"
	"os"
	"path/filepath"
	"runtime"
	"sort"
	"time"

	"verif/sim/prng"
)

// BitmapBits is the size of the distinctness bitmaps (linear counting; the
// number of set bits is a lower bound of the number of distinct hashes).
const BitmapBits = 1 << 26

type bitmap []uint64

func newBitmap() bitmap { return make(bitmap, BitmapBits/64) }

func (b bitmap) set(h uint64) {
	i := h % BitmapBits
	b[i/64] |= 1 << (i % 64)
}

func (b bitmap) count() int {
	n := 0
	for _, w := range b {
		for ; w != 0; w &= w - 1 {
			n++
		}
	}
	return n
}

// WorkerArgs are the arguments of one worker process.
type WorkerArgs struct {
	Prop     string
	Phase    string
	Seed     uint64
	K, N     int // this worker handles run indexes i with i % N == K
	Runs     int // total runs of the phase
	Deadline int64 // unix seconds after which no new run is started (0 = none)
	OutDir   string
	Known    []Known
	Hashes   bool // selftest: record (index, scenario hash, log hash, verdict) per run
	Fresh    bool // every run in a child process of its own
}

// FoundViolation is a violation together with its scenario.
type FoundViolation struct {
	Run      uint64          `json:"run"`
	K        int             `json:"k"` // worker index and count: the worker executed runs K, K+N, ... before Run
	N        int             `json:"n"`
	V        Violation       `json:"violation"`
	Scenario json.RawMessage `json:"scenario"`
}

// WorkerOut is the summary a worker writes when it finishes.
type WorkerOut struct {
	K           int              `json:"k"`
	Evaluated   int64            `json:"evaluated"`
	Skipped     int64            `json:"skipped"`
	Nontrivial  int64            `json:"nontrivial"`
	Steps       int64            `json:"steps"`
	Events      int64            `json:"events"`
	Counters    map[string]int64 `json:"counters"`
	Violation   *FoundViolation  `json:"violation,omitempty"`
	KnownHits   map[string]int64 `json:"known_hits,omitempty"`
	KnownSample map[string]json.RawMessage `json:"known_sample,omitempty"`
	Samples     []json.RawMessage `json:"samples,omitempty"`
	TimedOut    bool             `json:"timed_out"`
	InfraError  string           `json:"infra_error,omitempty"`
	WallS       float64          `json:"wall_s"`
}

// Inflight is implemented by scenarios that may crash the process (e.g. an
// allocation a broken limit check lets through); the worker persists such a
// scenario before executing it so the parent can attribute the crash.
type Inflight interface{ Dangerous() bool }

// RunWorker executes the runs assigned to this worker and writes
// <OutDir>/w<K>.json plus the distinctness bitmaps.
func RunWorker(a WorkerArgs) int {
	p, ok := Lookup(a.Prop)
	if !ok {
		fmt.Fprintf(os.Stderr, "unknown property %s\n", a.Prop)
		return 2
	}
	start := time.Now()
	out := WorkerOut{K: a.K, Counters: map[string]int64{}, KnownHits: map[string]int64{}, KnownSample: map[string]json.RawMessage{}}
	scen := newBitmap()
	states := newBitmap()
	var hashW *bufio.Writer
	if a.Hashes {
		f, err := os.Create(filepath.Join(a.OutDir, fmt.Sprintf("w%d.hashes", a.K)))
		if err != nil {
			fmt.Fprintln(os.Stderr, err)
			return 2
		}
		defer f.Close()
		hashW = bufio.NewWriter(f)
		defer hashW.Flush()
	}
	// one collection now, so that the runtime creates its background workers
	// (which counts as allocation) before any scenario meters allocations
	runtime.GC()
	StartWatchdog(filepath.Join(a.OutDir, fmt.Sprintf("w%d.hung", a.K)), HangCPULimit(WorkerHangCPU))
	defer WatchdogIdle()
	inflight := filepath.Join(a.OutDir, fmt.Sprintf("w%d.inflight", a.K))
	racing := filepath.Join(a.OutDir, fmt.Sprintf("w%d.racing", a.K))
	smallest := -1
	var smallestRaw json.RawMessage
	it := 0
	for i := a.K; i < a.Runs; i += a.N {
		it++
		if a.Deadline != 0 && it%16 == 0 && time.Now().Unix() > a.Deadline {
			out.TimedOut = true
			break
		}
		r := prng.New(prng.RunSeed(a.Seed, uint64(i)))
		sc := p.Generate(r, a.Phase)
		raw, err := json.Marshal(sc)
		if err != nil {
			out.InfraError = fmt.Sprintf("run %d: marshal: %v", i, err)
			break
		}
		if d, ok := sc.(Inflight); ok && d.Dangerous() {
			_ = os.WriteFile(inflight, raw, 0o644)
		}
		if RaceEnabled {
			// a race report aborts the process; persist the scenario first so
			// the parent can attribute the report
			_ = os.WriteFile(racing, raw, 0o644)
		}
		log := NewLog(false)
		var res Result
		if a.Fresh {
			res, err = execFresh(a, raw, log)
		} else {
			WatchdogArm(raw)
			res, err = SafeExecute(p, sc, a.Phase, log)
			WatchdogIdle()
		}
		if err != nil {
			out.InfraError = fmt.Sprintf("run %d: %v\nscenario: %s", i, err, raw)
			break
		}
		if d, ok := sc.(Inflight); ok && d.Dangerous() {
			_ = os.Remove(inflight)
		}
		sh := HashBytes(raw)
		if hashW != nil {
			verdict := "ok"
			if res.Violation != nil {
				verdict = res.Violation.Class
			}
			fmt.Fprintf(hashW, "%d %016x %016x %s\n", i, sh, log.Hash(), verdict)
		}
		if res.Skipped {
			out.Skipped++
			out.Counters["skipped:"+res.StateKey]++
			continue
		}
		out.Evaluated++
		out.Steps += int64(res.Steps)
		out.Events += int64(log.N)
		for k, v := range res.Counters {
			out.Counters[k] += v
		}
		if res.Nontrivial {
			out.Nontrivial++
			scen.set(sh)
		}
		if res.StateKey != "" {
			states.set(HashString(res.StateKey))
		}
		if len(out.Samples) == 0 || (len(out.Samples) == 1 && res.Nontrivial) {
			if len(raw) < 6000 {
				out.Samples = append(out.Samples, raw)
			}
		}
		if res.Nontrivial && (smallest < 0 || len(raw) < smallest) {
			smallest, smallestRaw = len(raw), raw
		}
		if res.Violation != nil {
			if kn := MatchKnown(a.Known, a.Prop, res.Violation.Sig); kn != nil {
				out.KnownHits[kn.Sig]++
				if _, ok := out.KnownSample[kn.Sig]; !ok {
					out.KnownSample[kn.Sig] = raw
				}
				continue
			}
			out.Violation = &FoundViolation{Run: uint64(i), K: a.K, N: a.N, V: *res.Violation, Scenario: raw}
			break
		}
	}
	if smallestRaw != nil && len(smallestRaw) < 6000 {
		out.Samples = append(out.Samples, smallestRaw)
	}
	out.WallS = time.Since(start).Seconds()
	if err := writeBitmap(filepath.Join(a.OutDir, fmt.Sprintf("w%d.scen", a.K)), scen); err != nil {
		out.InfraError = err.Error()
	}
	if err := writeBitmap(filepath.Join(a.OutDir, fmt.Sprintf("w%d.states", a.K)), states); err != nil {
		out.InfraError = err.Error()
	}
	b, _ := json.Marshal(out)
	if err := os.WriteFile(filepath.Join(a.OutDir, fmt.Sprintf("w%d.json", a.K)), b, 0o644); err != nil {
		fmt.Fprintln(os.Stderr, err)
		return 2
	}
	if out.InfraError != "" {
		fmt.Fprintln(os.Stderr, out.InfraError)
		return 2
	}
	runtime.KeepAlive(scen)
	return 0
}

// FreshStats is what a child process reports about the scenario it executed.
type FreshStats struct {
	Nontrivial bool             `json:"nontrivial"`
	Skipped    bool             `json:"skipped"`
	Invalid    bool             `json:"invalid"`
	Steps      int              `json:"steps"`
	StateKey   string           `json:"state_key"`
	Counters   map[string]int64 `json:"counters"`
	LogHash    uint64           `json:"log_hash"`
	LogN       int              `json:"log_n"`
}

// execFresh executes one scenario in a child process of its own and turns what
// the child reports into a Result.
func execFresh(a WorkerArgs, raw []byte, log *Log) (Result, error) {
	var res Result
	self, err := os.Executable()
	if err != nil {
		return res, err
	}
	file := filepath.Join(a.OutDir, fmt.Sprintf("w%d.fresh.json", a.K))
	if err := os.WriteFile(file, raw, 0o644); err != nil {
		return res, err
	}
	cmd := exec.Command(self, "exec", "-prop", a.Prop, "-phase", a.Phase, "-file", file, "-stats")
	cmd.Env = os.Environ()
	var buf bytes.Buffer
	cmd.Stdout, cmd.Stderr = &buf, &buf
	rerr := cmd.Run()
	out := buf.String()
	for _, ln := range strings.Split(out, "\n") {
		if strings.HasPrefix(ln, "STATS ") {
			var st FreshStats
			if json.Unmarshal([]byte(strings.TrimPrefix(ln, "STATS ")), &st) == nil {
				res.Nontrivial, res.Skipped, res.Invalid, res.Steps, res.StateKey, res.Counters = st.Nontrivial, st.Skipped, st.Invalid, st.Steps, st.StateKey, st.Counters
				log.N = st.LogN
				log.SetHash(st.LogHash)
			}
		}
		if strings.HasPrefix(ln, "RESULT ") {
			var v Violation
			if json.Unmarshal([]byte(strings.TrimPrefix(ln, "RESULT ")), &v) == nil {
				res.Violation = &v
			}
		}
	}
	if rerr != nil {
		code := -1
		if ee, ok := rerr.(*exec.ExitError); ok {
			code = ee.ExitCode()
		}
		switch code {
		case 3:
			if res.Violation == nil {
				return res, fmt.Errorf("child reported a violation without a RESULT line:\n%s", lastLines(out, 20))
			}
		case 66:
			res.Violation = &Violation{Class: "data-race", Sig: raceSig(out), Detail: firstLines(raceSummary(out), 30)}
		case ExitHung:
			res.Violation = &Violation{Class: "non-termination", Sig: hungSig(out), Detail: hungDetail(out)}
		default:
			return res, fmt.Errorf("child process failed: %v\n%s", rerr, lastLines(out, 20))
		}
	}
	return res, nil
}

func writeBitmap(path string, b bitmap) error {
	buf := make([]byte, 8*len(b))
	for i, x := range b {
		binary.LittleEndian.PutUint64(buf[8*i:], x)
	}
	return os.WriteFile(path, buf, 0o644)
}

func readBitmapInto(path string, b bitmap) error {
	buf, err := os.ReadFile(path)
	if err != nil {
		return err
	}
	if len(buf) != 8*len(b) {
		return fmt.Errorf("bitmap %s has %d bytes, want %d", path, len(buf), 8*len(b))
	}
	for i := range b {
		b[i] |= binary.LittleEndian.Uint64(buf[8*i:])
	}
	return nil
}

// SortedKeys returns the keys of a counter map in order.
func SortedKeys(m map[string]int64) []string {
	ks := make([]string, 0, len(m))
	for k := range m {
		ks = append(ks, k)
	}
	sort.Strings(ks)
	return ks
}
