//go:build race

package core

// RaceEnabled reports whether this binary was built with -race.
const RaceEnabled = true
