package core

import (
	"bytes"
	"encoding/json"
	"fmt"
	"os"
	"os/exec"
	"path/filepath"
	"runtime"
	"sort"
	"strconv"
	"strings"
	"sync"
	"time"

	"verif/sim/prng"
)

// Env describes where things are.
type Env struct {
	VerifDir  string // /verif
	PlainBin  string // worker binary
	RaceBin   string // worker binary built with -race ("" if not built)
	KnownFile string
	OutRoot   string // scratch directory for worker output
}

// Exit codes.
const (
	ExitOK        = 0
	ExitViolation = 1
	ExitInfra     = 2
)

func envSeed() uint64 {
	if s := os.Getenv("VERIF_SEED"); s != "" {
		if v, err := strconv.ParseUint(s, 10, 64); err == nil {
			return v
		}
		if v, err := strconv.ParseInt(s, 10, 64); err == nil {
			return uint64(v)
		}
	}
	return 1
}

// TierBudget returns the wall-clock cap of a tier in seconds (workers stop
// starting new runs after it; what was explored is reported).
func TierBudget(tier string) int64 {
	if s := os.Getenv("VERIF_BUDGET_S"); s != "" {
		if v, err := strconv.ParseInt(s, 10, 64); err == nil {
			return v
		}
	}
	if tier == "thorough" {
		return 1500
	}
	return 150
}

type phaseAgg struct {
	Phase      Phase
	Workers    int
	Evaluated  int64
	Skipped    int64
	Nontrivial int64
	Steps      int64
	Events     int64
	Counters   map[string]int64
	KnownHits  map[string]int64
	KnownSample map[string]json.RawMessage
	Violation  *FoundViolation
	Samples    []json.RawMessage
	TimedOut   bool
	WallS      float64
	Distinct   int
	States     int
}

// runPhase starts the workers of one phase and aggregates their output.
func runPhase(env Env, p Property, ph Phase, seed uint64, deadline int64, known []Known, hashes bool, outDir string) (*phaseAgg, error) {
	bin := env.PlainBin
	if ph.Race {
		bin = env.RaceBin
		if bin == "" {
			return nil, fmt.Errorf("phase %s needs the -race worker, which was not built", ph.Name)
		}
	}
	n := ph.Workers
	if n <= 0 {
		n = runtime.NumCPU()
	}
	if n > ph.Runs {
		n = ph.Runs
	}
	if n < 1 {
		n = 1
	}
	if err := os.MkdirAll(outDir, 0o755); err != nil {
		return nil, err
	}
	start := time.Now()
	var wg sync.WaitGroup
	errs := make([]error, n)
	stderrs := make([]bytes.Buffer, n)
	for k := 0; k < n; k++ {
		args := []string{"worker", "-prop", p.ID(), "-phase", ph.Name, "-seed", strconv.FormatUint(seed, 10),
			"-k", strconv.Itoa(k), "-n", strconv.Itoa(n), "-runs", strconv.Itoa(ph.Runs),
			"-deadline", strconv.FormatInt(deadline, 10), "-out", outDir, "-known", env.KnownFile}
		if hashes {
			args = append(args, "-hashes")
		}
		if ph.Fresh {
			args = append(args, "-fresh")
		}
		cmd := workerCmd(bin, ph.Race, args)
		cmd.Env = os.Environ()
		if ph.MaxProcs > 0 {
			cmd.Env = append(cmd.Env, "GOMAXPROCS="+strconv.Itoa(ph.MaxProcs))
		}
		if ph.Race {
			cmd.Env = append(cmd.Env, "GORACE=halt_on_error=1 exitcode=66 history_size=5 atexit_sleep_ms=0")
		}
		cmd.Stderr = &stderrs[k]
		cmd.Stdout = &stderrs[k]
		wg.Add(1)
		go func(k int, cmd *exec.Cmd) {
			defer wg.Done()
			errs[k] = cmd.Run()
		}(k, cmd)
	}
	wg.Wait()
	agg := &phaseAgg{Phase: ph, Workers: n, Counters: map[string]int64{}, KnownHits: map[string]int64{}, KnownSample: map[string]json.RawMessage{}}
	scen, states := newBitmap(), newBitmap()
	var crashed error
	for k := 0; k < n; k++ {
		if errs[k] != nil {
			// A crash (not a clean exit 2) while a dangerous scenario was in
			// flight is attributed to that scenario.
			infl := filepath.Join(outDir, fmt.Sprintf("w%d.inflight", k))
			if raw, rerr := os.ReadFile(infl); rerr == nil {
				agg.Violation = &FoundViolation{Run: 0, V: Violation{Class: "process-crash", Sig: "process-crash", Detail: lastLines(stderrs[k].String(), 12)}, Scenario: raw}
				continue
			}
			if exitCode(errs[k]) == ExitHung {
				hf := filepath.Join(outDir, fmt.Sprintf("w%d.hung", k))
				if raw, rerr := os.ReadFile(hf); rerr == nil {
					agg.Violation = &FoundViolation{Run: 0, V: Violation{Class: "non-termination", Sig: hungSig(stderrs[k].String()), Detail: hungDetail(stderrs[k].String())}, Scenario: raw}
					continue
				}
			}
			if ph.Race && exitCode(errs[k]) == 66 {
				rf := filepath.Join(outDir, fmt.Sprintf("w%d.racing", k))
				if raw, rerr := os.ReadFile(rf); rerr == nil {
					agg.Violation = &FoundViolation{Run: 0, V: Violation{Class: "data-race", Sig: raceSig(stderrs[k].String()), Detail: firstLines(raceSummary(stderrs[k].String()), 30)}, Scenario: raw}
					continue
				}
			}
			if crashed == nil {
				crashed = fmt.Errorf("worker %d of phase %s failed: %v\n%s", k, ph.Name, errs[k], lastLines(stderrs[k].String(), 30))
			}
			continue
		}
		b, err := os.ReadFile(filepath.Join(outDir, fmt.Sprintf("w%d.json", k)))
		if err != nil {
			return nil, err
		}
		var wo WorkerOut
		if err := json.Unmarshal(b, &wo); err != nil {
			return nil, err
		}
		agg.Evaluated += wo.Evaluated
		agg.Skipped += wo.Skipped
		agg.Nontrivial += wo.Nontrivial
		agg.Steps += wo.Steps
		agg.Events += wo.Events
		agg.TimedOut = agg.TimedOut || wo.TimedOut
		for c, v := range wo.Counters {
			agg.Counters[c] += v
		}
		for c, v := range wo.KnownHits {
			agg.KnownHits[c] += v
			if _, ok := agg.KnownSample[c]; !ok {
				agg.KnownSample[c] = wo.KnownSample[c]
			}
		}
		if wo.Violation != nil && (agg.Violation == nil || wo.Violation.Run < agg.Violation.Run) {
			agg.Violation = wo.Violation
		}
		if len(agg.Samples) < 3 {
			for _, s := range wo.Samples {
				if len(agg.Samples) < 3 {
					agg.Samples = append(agg.Samples, s)
				}
			}
		}
		if err := readBitmapInto(filepath.Join(outDir, fmt.Sprintf("w%d.scen", k)), scen); err != nil {
			return nil, err
		}
		if err := readBitmapInto(filepath.Join(outDir, fmt.Sprintf("w%d.states", k)), states); err != nil {
			return nil, err
		}
	}
	if crashed != nil && agg.Violation == nil {
		// an unattributed worker crash is trouble in the machinery unless
		// another worker pinned a violation down
		return nil, crashed
	}
	agg.Distinct = scen.count()
	agg.States = states.count()
	agg.WallS = time.Since(start).Seconds()
	return agg, nil
}

// workerCmd starts a worker. Plain workers get an address-space limit so that
// a runaway allocation of the code under test kills the worker, not the
// sandbox (the -race runtime needs its huge shadow mapping and is exempt).
func workerCmd(bin string, race bool, args []string) *exec.Cmd {
	if race {
		return exec.Command(bin, args...)
	}
	sh := []string{"-c", `ulimit -v 16777216 2>/dev/null; exec "$0" "$@"`, bin}
	return exec.Command("/bin/bash", append(sh, args...)...)
}

func exitCode(err error) int {
	if ee, ok := err.(*exec.ExitError); ok {
		return ee.ExitCode()
	}
	return -1
}

func lastLines(s string, n int) string {
	ls := strings.Split(strings.TrimRight(s, "\n"), "\n")
	if len(ls) > n {
		ls = ls[len(ls)-n:]
	}
	return strings.Join(ls, "\n")
}

// raceSummary keeps the first report of the race detector's output.
func raceSummary(s string) string {
	i := strings.Index(s, "WARNING: DATA RACE")
	if i < 0 {
		return s
	}
	s = s[i:]
	if j := strings.Index(s, "=================="); j > 0 {
		s = s[:j]
	}
	return s
}

// raceSig is the first go-geom function named in a race report.
func raceSig(s string) string {
	s = raceSummary(s)
	for _, ln := range strings.Split(s, "\n") {
		ln = strings.TrimSpace(ln)
		if strings.HasPrefix(ln, "github.com/twpayne/go-geom") {
			ln = strings.TrimSuffix(ln, "()")
			return "race:" + strings.TrimPrefix(ln, "github.com/twpayne/go-geom")
		}
	}
	// no library frame on either stack: both accesses are the callers' own
	// (writes through slices the library handed to two different callers)
	return "race:callers-share-storage"
}

func firstLines(s string, n int) string {
	ls := strings.Split(strings.TrimRight(s, "\n"), "\n")
	if len(ls) > n {
		ls = ls[:n]
	}
	return strings.Join(ls, "\n")
}

// execRepeat > 1 makes every fresh process execute its scenario up to that
// many times, until it shows a violation (set once a violation has turned out
// to be intermittent).
var execRepeat = 1

// shrinkingHang is set while candidates of a non-terminating scenario are
// tried: they get the short CPU limit.
var shrinkingHang bool

// execOnce executes one scenario in a fresh process and returns the class of
// the violation it shows ("" = none).
func execOnce(env Env, p Property, phase Phase, raw []byte, verbose bool) (class, sig, detail, output string, err error) {
	return execSeq(env, p, phase, nil, raw, verbose)
}

// execSeq is execOnce after executing the prelude scenarios in the same
// process.
func execSeq(env Env, p Property, phase Phase, prelude []json.RawMessage, raw []byte, verbose bool) (class, sig, detail, output string, err error) {
	bin := env.PlainBin
	if phase.Race {
		bin = env.RaceBin
	}
	tmp, terr := os.CreateTemp(env.OutRoot, "exec-*.json")
	if terr != nil {
		return "", "", "", "", terr
	}
	defer os.Remove(tmp.Name())
	tmp.Write(raw)
	tmp.Close()
	args := []string{"exec", "-prop", p.ID(), "-phase", phase.Name, "-file", tmp.Name()}
	if len(prelude) > 0 {
		pf, perr := os.CreateTemp(env.OutRoot, "prelude-*.json")
		if perr != nil {
			return "", "", "", "", perr
		}
		defer os.Remove(pf.Name())
		pb, _ := json.Marshal(prelude)
		pf.Write(pb)
		pf.Close()
		args = append(args, "-prelude", pf.Name())
	}
	if verbose {
		args = append(args, "-v")
	}
	if execRepeat > 1 {
		args = append(args, "-repeat", strconv.Itoa(execRepeat))
	}
	cmd := workerCmd(bin, phase.Race, args)
	cmd.Env = os.Environ()
	if phase.MaxProcs > 0 {
		cmd.Env = append(cmd.Env, "GOMAXPROCS="+strconv.Itoa(phase.MaxProcs))
	}
	if phase.Race {
		cmd.Env = append(cmd.Env, "GORACE=halt_on_error=1 exitcode=66 history_size=5 atexit_sleep_ms=0")
	}
	if shrinkingHang && os.Getenv("VERIF_HANG_CPU_S") == "" {
		cmd.Env = append(cmd.Env, fmt.Sprintf("VERIF_HANG_CPU_S=%d", int(ShrinkHangCPU.Seconds())))
	}
	var buf bytes.Buffer
	cmd.Stdout, cmd.Stderr = &buf, &buf
	rerr := cmd.Run()
	out := buf.String()
	if rerr != nil {
		switch exitCode(rerr) {
		case 66:
			return "data-race", raceSig(out), firstLines(raceSummary(out), 30), out, nil
		case ExitHung:
			return "non-termination", hungSig(out), hungDetail(out), out, nil
		case 3:
			// violation reported by exec
		default:
			if raw2 := strings.Contains(out, "fatal error:") || strings.Contains(out, "out of memory"); raw2 {
				return "process-crash", "process-crash", lastLines(out, 12), out, nil
			}
			return "", "", "", out, fmt.Errorf("exec failed: %v\n%s", rerr, lastLines(out, 30))
		}
	}
	for _, ln := range strings.Split(out, "\n") {
		if strings.HasPrefix(ln, "RESULT ") {
			var v Violation
			if json.Unmarshal([]byte(strings.TrimPrefix(ln, "RESULT ")), &v) == nil {
				return v.Class, v.Sig, v.Detail, out, nil
			}
		}
	}
	return "", "", "", out, nil
}

// Check runs a property's tier and returns the process exit code.
func Check(env Env, id, tier string) int {
	p, ok := Lookup(id)
	if !ok {
		fmt.Fprintf(os.Stderr, "unknown property %s (have %v)\n", id, IDs())
		return ExitInfra
	}
	if t := os.Getenv("VERIF_TIER"); t == "quick" || t == "thorough" {
		tier = t
	}
	seed := envSeed()
	fmt.Printf("check %s tier=%s VERIF_SEED=%d\n", id, tier, seed)
	known, err := LoadKnown(env.KnownFile)
	if err != nil {
		fmt.Fprintln(os.Stderr, err)
		return ExitInfra
	}
	start := time.Now()
	deadline := start.Unix() + TierBudget(tier)
	runDir, err := os.MkdirTemp(env.OutRoot, "run-"+id+"-")
	if err != nil {
		fmt.Fprintln(os.Stderr, err)
		return ExitInfra
	}
	defer os.RemoveAll(runDir)
	var aggs []*phaseAgg
	var found *FoundViolation
	var foundPhase Phase
	pendingInfra, reported := false, false
	code := ExitOK
	var replayPath string
	plan := p.Plan(tier)
	for pi, ph := range plan {
		// each phase gets an equal share of what is left of the budget
		now := time.Now().Unix()
		phaseDeadline := now + (deadline-now)/int64(len(plan)-pi)
		agg, err := runPhase(env, p, ph, seed, phaseDeadline, known, false, filepath.Join(runDir, ph.Name))
		if err != nil {
			fmt.Fprintln(os.Stderr, err)
			return ExitInfra
		}
		aggs = append(aggs, agg)
		fmt.Printf("  phase %-10s runs=%d evaluated=%d nontrivial=%d distinct>=%d states>=%d steps=%d wall=%.1fs%s\n",
			ph.Name, ph.Runs, agg.Evaluated, agg.Nontrivial, agg.Distinct, agg.States, agg.Steps, agg.WallS, map[bool]string{true: " (time cap reached)", false: ""}[agg.TimedOut])
		if agg.Violation != nil {
			found, foundPhase = agg.Violation, ph
			if pi < len(plan)-1 && (agg.Violation.V.Class == "data-race") {
				// A race report may fail to reproduce (it is probabilistic and
				// may depend on what the worker process did before). Try to
				// pin it down now; if that fails, the remaining phases — which
				// decide from values, deterministically — still run, and the
				// unconfirmed report counts as trouble only if they are silent.
				rp, rc := report(env, p, ph, seed, found, known)
				if rc == ExitInfra {
					fmt.Printf("  the race report of phase %s could not be confirmed; continuing with the remaining phases\n", ph.Name)
					pendingInfra = true
					found = nil
					continue
				}
				reported, replayPath, code = true, rp, rc
			}
			break
		}
	}
	violations := 0
	if found != nil {
		violations = 1
		if !reported {
			replayPath, code = report(env, p, foundPhase, seed, found, known)
		}
	}
	if found == nil && pendingInfra {
		code = ExitInfra
	}
	// known findings: print one line per listed finding that was hit
	for _, k := range known {
		if k.Fixed || k.Property != id {
			continue
		}
		hits := int64(0)
		for _, a := range aggs {
			hits += a.KnownHits[k.Sig]
		}
		if hits > 0 {
			fmt.Printf("KNOWN-FINDING: property=%s sig=%s %s (hit %d times)\n", id, k.Sig, k.Text, hits)
		}
	}
	if err := writeEvidence(env, p, tier, seed, aggs, violations, time.Since(start).Seconds(), replayPath); err != nil {
		fmt.Fprintln(os.Stderr, "evidence:", err)
		return ExitInfra
	}
	if code == ExitOK {
		fmt.Printf("OK property=%s tier=%s held on everything explored (%.1fs)\n", id, tier, time.Since(start).Seconds())
	}
	return code
}

// report confirms, minimises and writes the replay file of a violation.
func report(env Env, p Property, ph Phase, seed uint64, fv *FoundViolation, known []Known) (string, int) {
	fmt.Printf("  candidate violation in phase %s run %d: %s: %s\n", ph.Name, fv.Run, fv.V.Class, oneLine(fv.V.Detail, 300))
	class, sig, detail, out, err := execOnce(env, p, ph, fv.Scenario, false)
	if err != nil {
		fmt.Fprintln(os.Stderr, err)
		return "", ExitInfra
	}
	if class != "" && class != fv.V.Class {
		// The scenario shows a violation in a fresh process too, only of
		// another class (a race report may come before, or instead of, a value
		// oracle on the same defect): what reproduces is what gets reported.
		fmt.Printf("  in a fresh process the scenario shows %s instead of %s; reporting that\n", class, fv.V.Class)
		fv = &FoundViolation{Run: fv.Run, K: fv.K, N: fv.N, V: Violation{Class: class, Sig: sig, Detail: detail}, Scenario: fv.Scenario}
	}
	intermittent := false
	if class == "" && err == nil && fv.V.Class != "data-race" && fv.V.Class != "process-crash" && fv.V.Class != "non-termination" {
		// The library's answer may depend on something outside the scenario
		// (map iteration order, an address, a helper goroutine): the same
		// scenario is then wrong in some executions only. Executions are
		// cheap; a violation that shows up again within 3 000 of them is real
		// and is reported as intermittent.
		// (12 processes of up to 250 executions each)
		execRepeat = 250
		for i := 0; i < 12 && class == ""; i++ {
			class, sig, detail, out, err = execOnce(env, p, ph, fv.Scenario, false)
			if err != nil {
				break
			}
		}
		if class == "" || err != nil {
			execRepeat = 1
		} else if class != fv.V.Class {
			// the same defect may be caught by another oracle first
			fmt.Printf("  in fresh processes the scenario shows %s instead of %s; reporting that\n", class, fv.V.Class)
			fv = &FoundViolation{Run: fv.Run, K: fv.K, N: fv.N, V: Violation{Class: class, Sig: sig, Detail: detail}, Scenario: fv.Scenario}
		}
		if class == fv.V.Class {
			intermittent = true
			fmt.Printf("  the violation is intermittent: the same scenario holds in some executions and not in others\n")
		}
	}
	if class != fv.V.Class {
		// For race reports allow several attempts (bounded shadow memory).
		okc := false
		if fv.V.Class == "data-race" {
			// A race report needs the two accesses to stay unordered; incidental
			// happens-before edges (e.g. sync.Pool inside encoding/json under
			// -race) make reproduction probabilistic, so try repeatedly.
			for i := 0; i < 80 && !okc; i++ {
				class, sig, detail, out, _ = execOnce(env, p, ph, fv.Scenario, false)
				okc = class == fv.V.Class
			}
		}
		if !okc && fv.N > 0 && fv.V.Class != "data-race" && fv.V.Class != "process-crash" && fv.V.Class != "non-termination" {
			if path, code, handled := reportWithHistory(env, p, ph, seed, fv, known); handled {
				return path, code
			}
		}
		if !okc {
			path := filepath.Join(env.VerifDir, "replays", fmt.Sprintf("unconfirmed-%s-%d-%d.json", p.ID(), seed, fv.Run))
			writeReplay(path, Replay{Property: p.ID(), Phase: ph.Name, Seed: seed, Run: fv.Run, Class: fv.V.Class, Sig: fv.V.Sig, Detail: fv.V.Detail, Scenario: fv.Scenario})
			fmt.Fprintf(os.Stderr, "violation %q did not reproduce in a fresh process (got %q); kept %s\n%s\n", fv.V.Class, class, path, lastLines(out, 20))
			return "", ExitInfra
		}
	}
	_ = sig
	_ = detail
	// minimise
	maxTests, maxDur := 3000, 90*time.Second
	var tester Tester
	if fv.V.Class == "data-race" || fv.V.Class == "process-crash" || fv.V.Class == "non-termination" {
		maxTests, maxDur = 60, 150*time.Second
		tester = func(raw []byte) bool {
			if _, err := p.Decode(raw); err != nil {
				return false
			}
			tries := 1
			if fv.V.Class == "data-race" {
				tries = 8
			}
			for i := 0; i < tries; i++ {
				c, _, _, _, err := execOnce(env, p, ph, raw, false)
				if err == nil && c == fv.V.Class {
					return true
				}
			}
			return false
		}
	} else {
		tester = func(raw []byte) bool {
			sc, err := p.Decode(raw)
			if err != nil {
				return false
			}
			tries := 1
			if intermittent {
				tries = 250
			}
			for i := 0; i < tries; i++ {
				res, err := SafeExecute(p, sc, ph.Name, NewLog(false))
				if err != nil || res.Invalid {
					return false
				}
				if res.Violation != nil && res.Violation.Class == fv.V.Class {
					return true
				}
			}
			return false
		}
	}
	shrinkingHang = fv.V.Class == "non-termination"
	small, tests := Shrink(fv.Scenario, tester, maxTests, maxDur)
	shrinkingHang = false
	fmt.Printf("  minimised %d -> %d bytes in %d executions\n", len(fv.Scenario), len(small), tests)
	class2, sig2, detail2, _, err := execOnce(env, p, ph, small, false)
	for i := 0; i < 80 && (fv.V.Class == "data-race" || intermittent) && (err != nil || class2 != fv.V.Class); i++ {
		class2, sig2, detail2, _, err = execOnce(env, p, ph, small, false)
	}
	if err != nil || class2 != fv.V.Class {
		// fall back to the unminimised scenario
		small, class2, sig2, detail2 = fv.Scenario, class, sig, detail
		if class2 != fv.V.Class {
			class2, sig2, detail2 = fv.V.Class, fv.V.Sig, fv.V.Detail
		}
	}
	if kn := MatchKnown(known, p.ID(), sig2); kn != nil {
		fmt.Printf("KNOWN-FINDING: property=%s sig=%s %s\n", p.ID(), kn.Sig, kn.Text)
		return "", ExitOK
	}
	path := filepath.Join(env.VerifDir, "replays", fmt.Sprintf("%s-%d-%016x.json", p.ID(), seed, HashBytes(small)))
	if err := writeReplay(path, Replay{Property: p.ID(), Phase: ph.Name, Seed: seed, Run: fv.Run, Class: class2, Sig: sig2, Detail: detail2, Shrunk: !bytes.Equal(small, fv.Scenario), Intermittent: intermittent, Scenario: small}); err != nil {
		fmt.Fprintln(os.Stderr, err)
		return "", ExitInfra
	}
	// the replay file must reproduce in a fresh process
	rc, _, _, out, err := execOnce(env, p, ph, small, false)
	for i := 0; i < 80 && (class2 == "data-race" || intermittent) && (err != nil || rc != class2); i++ {
		rc, _, _, out, err = execOnce(env, p, ph, small, false)
	}
	if err != nil || rc != class2 {
		fmt.Fprintf(os.Stderr, "replay file %s does not reproduce (%q vs %q)\n%s\n", path, rc, class2, lastLines(out, 20))
		return path, ExitInfra
	}
	fmt.Printf("  class: %s\n  sig: %s\n  detail: %s\n", class2, sig2, oneLine(detail2, 600))
	fmt.Printf("VIOLATION property=%s replay=%s\n", p.ID(), path)
	return path, ExitViolation
}

// reportWithHistory handles a violation that does not reproduce on its own:
// the library keeps state between calls, so the scenarios the same worker
// executed earlier in its process are part of the failing history. They are
// regenerated from the seed, the history is confirmed in a fresh process,
// minimised (ddmin over the prelude, then the usual shrinking of the last
// scenario) and written to the replay file as "prelude".
func reportWithHistory(env Env, p Property, ph Phase, seed uint64, fv *FoundViolation, known []Known) (string, int, bool) {
	var prelude []json.RawMessage
	for i := uint64(fv.K); i < fv.Run; i += uint64(fv.N) {
		sc := p.Generate(prng.New(prng.RunSeed(seed, i)), ph.Name)
		raw, err := json.Marshal(sc)
		if err != nil {
			return "", ExitInfra, false
		}
		prelude = append(prelude, raw)
		if len(prelude) > 50000 {
			fmt.Fprintf(os.Stderr, "the violation depends on more than 50000 earlier scenarios of its worker; not replayed\n")
			return "", ExitInfra, false
		}
	}
	if len(prelude) == 0 {
		return "", ExitInfra, false
	}
	same := func(pre []json.RawMessage, raw []byte) bool {
		c, _, _, _, err := execSeq(env, p, ph, pre, raw, false)
		return err == nil && c == fv.V.Class
	}
	if !same(prelude, fv.Scenario) {
		return "", ExitInfra, false
	}
	fmt.Printf("  the violation needs earlier scenarios of the same process (hidden state between calls): history of %d scenarios confirmed\n", len(prelude)+1)
	// ddmin over the prelude
	tests := 0
	for size := len(prelude); size >= 1 && tests < 80; {
		removed := false
		for from := 0; from+size <= len(prelude) && tests < 80; {
			cand := append(append([]json.RawMessage{}, prelude[:from]...), prelude[from+size:]...)
			tests++
			if same(cand, fv.Scenario) {
				prelude = cand
				removed = true
			} else {
				from += size
			}
		}
		if size == 1 && !removed {
			break
		}
		if size > len(prelude) {
			size = len(prelude)
		} else if !removed || size > 1 {
			size /= 2
		}
	}
	// shrink the last scenario with the prelude fixed, then each prelude scenario
	small, t2 := Shrink(fv.Scenario, func(raw []byte) bool {
		if _, err := p.Decode(raw); err != nil {
			return false
		}
		return same(prelude, raw)
	}, 80, 90*time.Second)
	for i := range prelude {
		idx := i
		pre2, _ := Shrink(prelude[idx], func(raw []byte) bool {
			if _, err := p.Decode(raw); err != nil {
				return false
			}
			cand := append([]json.RawMessage{}, prelude...)
			cand[idx] = raw
			return same(cand, small)
		}, 60, 60*time.Second)
		prelude[idx] = pre2
	}
	fmt.Printf("  minimised to a history of %d scenarios (%d + %d executions)\n", len(prelude)+1, tests, t2)
	class2, sig2, detail2, out, err := execSeq(env, p, ph, prelude, small, false)
	if err != nil || class2 != fv.V.Class {
		fmt.Fprintf(os.Stderr, "minimised history does not reproduce\n%s\n", lastLines(out, 20))
		return "", ExitInfra, true
	}
	if kn := MatchKnown(known, p.ID(), sig2); kn != nil {
		fmt.Printf("KNOWN-FINDING: property=%s sig=%s %s\n", p.ID(), kn.Sig, kn.Text)
		return "", ExitOK, true
	}
	path := filepath.Join(env.VerifDir, "replays", fmt.Sprintf("%s-%d-%016x.json", p.ID(), seed, HashBytes(append(append([]byte{}, small...), byte(len(prelude))))))
	if err := writeReplay(path, Replay{Property: p.ID(), Phase: ph.Name, Seed: seed, Run: fv.Run, Class: class2, Sig: sig2, Detail: detail2, Shrunk: true, Prelude: prelude, Scenario: small}); err != nil {
		fmt.Fprintln(os.Stderr, err)
		return "", ExitInfra, true
	}
	fmt.Printf("  class: %s\n  sig: %s\n  detail: %s\n", class2, sig2, oneLine(detail2, 600))
	fmt.Printf("VIOLATION property=%s replay=%s\n", p.ID(), path)
	return path, ExitViolation, true
}

func oneLine(s string, n int) string {
	s = strings.ReplaceAll(s, "\n", " | ")
	if len(s) > n {
		s = s[:n] + "..."
	}
	return s
}

func writeReplay(path string, r Replay) error {
	if err := os.MkdirAll(filepath.Dir(path), 0o755); err != nil {
		return err
	}
	b, err := json.MarshalIndent(r, "", " ")
	if err != nil {
		return err
	}
	return os.WriteFile(path, append(b, '\n'), 0o644)
}

// ReplayFile re-executes a replay file in a fresh process, verbosely.
func ReplayFile(env Env, id, path string) int {
	p, ok := Lookup(id)
	if !ok {
		fmt.Fprintf(os.Stderr, "unknown property %s\n", id)
		return ExitInfra
	}
	b, err := os.ReadFile(path)
	if err != nil {
		fmt.Fprintln(os.Stderr, err)
		return ExitInfra
	}
	var r Replay
	if err := json.Unmarshal(b, &r); err != nil {
		fmt.Fprintln(os.Stderr, err)
		return ExitInfra
	}
	var ph Phase
	for _, t := range []string{"quick", "thorough"} {
		for _, x := range p.Plan(t) {
			if x.Name == r.Phase {
				ph = x
			}
		}
	}
	if ph.Name == "" {
		ph = Phase{Name: r.Phase}
	}
	if r.Intermittent {
		execRepeat = 250
	}
	class, sig, detail, out, err := execSeq(env, p, ph, r.Prelude, r.Scenario, true)
	for i := 0; i < 80 && (r.Class == "data-race" || r.Intermittent) && err == nil && class != r.Class; i++ {
		class, sig, detail, out, err = execSeq(env, p, ph, r.Prelude, r.Scenario, true)
	}
	fmt.Print(out)
	if err != nil {
		fmt.Fprintln(os.Stderr, err)
		return ExitInfra
	}
	if class == "" {
		fmt.Printf("replay of %s: no violation (recorded class was %q)\n", path, r.Class)
		return ExitOK
	}
	fmt.Printf("  class: %s\n  sig: %s\n  detail: %s\n", class, sig, oneLine(detail, 800))
	known, _ := LoadKnown(env.KnownFile)
	if kn := MatchKnown(known, id, sig); kn != nil {
		fmt.Printf("KNOWN-FINDING: property=%s sig=%s %s\n", id, kn.Sig, kn.Text)
		return ExitOK
	}
	fmt.Printf("VIOLATION property=%s replay=%s\n", id, path)
	return ExitViolation
}

func writeEvidence(env Env, p Property, tier string, seed uint64, aggs []*phaseAgg, violations int, wall float64, replay string) error {
	d := p.Describe()
	var evaluated, nontrivial, steps, events, skipped int64
	distinct, states := 0, 0
	counters := map[string]int64{}
	var samples []any
	phases := []any{}
	timedOut := false
	for _, a := range aggs {
		evaluated += a.Evaluated
		nontrivial += a.Nontrivial
		steps += a.Steps
		events += a.Events
		skipped += a.Skipped
		distinct += a.Distinct
		states += a.States
		timedOut = timedOut || a.TimedOut
		for k, v := range a.Counters {
			counters[k] += v
		}
		for _, s := range a.Samples {
			if len(samples) < 4 {
				var v any
				if json.Unmarshal(s, &v) == nil {
					samples = append(samples, map[string]any{"phase": a.Phase.Name, "scenario": v})
				}
			}
		}
		phases = append(phases, map[string]any{
			"name": a.Phase.Name, "race_detector": a.Phase.Race, "workers": a.Workers, "runs_planned": a.Phase.Runs,
			"evaluated": a.Evaluated, "skipped": a.Skipped, "nontrivial": a.Nontrivial, "distinct_nontrivial_lower_bound": a.Distinct,
			"distinct_states_lower_bound": a.States, "steps": a.Steps, "wall_s": round1(a.WallS), "time_cap_reached": a.TimedOut,
		})
	}
	pick := func(names []string) map[string]int64 {
		out := map[string]int64{}
		for _, n := range names {
			out[n] = counters[n]
		}
		return out
	}
	other := map[string]int64{}
	listed := map[string]bool{}
	for _, n := range append(append([]string{}, d.FaultKinds...), d.Probes...) {
		listed[n] = true
	}
	for k, v := range counters {
		if !listed[k] {
			other[k] = v
		}
	}
	if int64(distinct) > nontrivial {
		distinct = int(nontrivial)
	}
	perHour := 0.0
	if wall > 0 {
		perHour = float64(evaluated) / wall * 3600
	}
	cov := map[string]any{
		"evaluations":         evaluated,
		"distinct_nontrivial": distinct,
		"rule":                d.Rule + " Distinctness is measured by a 2^26-bit bitmap over FNV-1a hashes of the scenario JSON of non-trivial runs, OR-ed across workers; the number of set bits is a lower bound.",
		"samples":             samples,
		"exhaustive":          false,
		"nontrivial_runs":     nontrivial,
		"skipped_scenarios":   skipped,
		"runs_per_hour":       int64(perHour),
		"seeds":               fmt.Sprintf("VERIF_SEED=%d; run i of a phase uses splitmix64(seed, i); one run = one scenario", seed),
		"steps":               steps,
		"events_logged":       events,
		"simulated_time":      "not applicable: nothing in go-geom reads a clock or sets a timer; progress is counted in steps (reader/writer calls, operations, deliveries)",
		"fault_kinds_fired":   pick(d.FaultKinds),
		"probes":              pick(d.Probes),
		"other_counters":      other,
		"distinct_states":     map[string]any{"lower_bound": states, "measure": d.StateMeasure},
		"phases":              phases,
		"real_components":     d.RealComponents,
		"stub_components":     d.StubComponents,
		"time_cap_reached":    timedOut,
	}
	if !timedOut && violations == 0 {
		// a reach probe or fault kind stuck at zero means the workload does not
		// get there: say so on every run (it is not a verdict)
		for _, n := range append(append([]string{}, d.FaultKinds...), d.Probes...) {
			if counters[n] == 0 {
				fmt.Fprintf(os.Stderr, "note: property=%s tier=%s counter %q stayed at zero in this run\n", p.ID(), tier, n)
			}
		}
	}
	if replay != "" {
		cov["replay"] = replay
	}
	ev := map[string]any{
		"property_id": p.ID(),
		"tier":        tier,
		"seed":        int64(seed),
		"level":       d.Level,
		"coverage":    cov,
		"assumptions": d.Assumptions,
		"wall_s":      round1(wall),
		"violations":  violations,
	}
	b, err := json.MarshalIndent(ev, "", " ")
	if err != nil {
		return err
	}
	dir := filepath.Join(env.VerifDir, "evidence")
	if r := os.Getenv("VERIF_REPO"); r != "" && filepath.Clean(r) != "/repo" {
		// a run against a scratch copy (mutant, seeded change) is not evidence
		// about /repo: keep it out of the committed evidence directory
		dir = filepath.Join(env.OutRoot, "evidence-scratch")
	}
	if err := os.MkdirAll(dir, 0o755); err != nil {
		return err
	}
	return os.WriteFile(filepath.Join(dir, p.ID()+".json"), append(b, '\n'), 0o644)
}

func round1(f float64) float64 { return float64(int64(f*10+0.5)) / 10 }

// SelfTest proves determinism: every phase of every property is run for a
// sample of seeds several times under different worker counts and GOMAXPROCS
// settings, and the per-run (scenario hash, event-log hash, verdict) lists
// must be identical.
func SelfTest(env Env, ids []string, runs int, dump string) int {
	var dumpLines []string
	if len(ids) == 0 {
		ids = IDs()
	}
	known, _ := LoadKnown(env.KnownFile)
	bad := 0
	for _, id := range ids {
		p, _ := Lookup(id)
		if p == nil {
			fmt.Fprintf(os.Stderr, "unknown property %s\n", id)
			return ExitInfra
		}
		for _, ph := range p.Plan("quick") {
			ph.Runs = runs
			if ph.Race {
				ph.Runs = runs / 4
			}
			type cfg struct{ workers, procs int }
			cfgs := []cfg{{1, 1}, {16, 1}, {16, 4}, {4, 16}, {16, 16}, {3, 2}}
			for _, seed := range []uint64{1, 7, 424242} {
				var ref []string
				for ci, c := range cfgs {
					ph2 := ph
					ph2.Workers, ph2.MaxProcs = c.workers, c.procs
					dir, _ := os.MkdirTemp(env.OutRoot, "selftest-")
					agg, err := runPhase(env, p, ph2, seed, 0, known, true, dir)
					if err != nil {
						fmt.Fprintln(os.Stderr, err)
						os.RemoveAll(dir)
						return ExitInfra
					}
					_ = agg
					var lines []string
					files, _ := filepath.Glob(filepath.Join(dir, "*.hashes"))
					for _, f := range files {
						b, _ := os.ReadFile(f)
						for _, ln := range strings.Split(strings.TrimSpace(string(b)), "\n") {
							if ln != "" {
								lines = append(lines, ln)
							}
						}
					}
					os.RemoveAll(dir)
					sort.Slice(lines, func(i, j int) bool {
						a, _ := strconv.Atoi(strings.Fields(lines[i])[0])
						b, _ := strconv.Atoi(strings.Fields(lines[j])[0])
						return a < b
					})
					if ci == 0 {
						ref = lines
						continue
					}
					// a violation stops a worker early, so compare the common prefix per index
					refm := map[string]string{}
					for _, l := range ref {
						refm[strings.Fields(l)[0]] = l
					}
					diffs := 0
					for _, l := range lines {
						if r, ok := refm[strings.Fields(l)[0]]; ok && r != l {
							if diffs < 3 {
								fmt.Printf("NONDETERMINISM %s/%s seed=%d cfg=%v:\n  ref %s\n  got %s\n", id, ph.Name, seed, c, r, l)
							}
							diffs++
						}
					}
					bad += diffs
				}
				fmt.Printf("selftest %s/%s seed=%d: %d runs x %d configurations compared\n", id, ph.Name, seed, len(ref), len(cfgs))
				for _, l := range ref {
					dumpLines = append(dumpLines, fmt.Sprintf("%s/%s seed=%d %s", id, ph.Name, seed, l))
				}
			}
		}
	}
	if dump != "" {
		os.WriteFile(dump, []byte(strings.Join(dumpLines, "\n")+"\n"), 0o644)
	}
	if bad > 0 {
		fmt.Printf("selftest FAILED: %d divergent runs\n", bad)
		return ExitInfra
	}
	fmt.Println("selftest OK: all runs identical across worker counts and GOMAXPROCS")
	return ExitOK
}
