package core

import (
	"bytes"
	"encoding/json"
	"sort"
	"strconv"
	"strings"
	"time"
)

// Tester reports whether a candidate scenario still shows the violation class.
type Tester func(raw []byte) bool

// Shrink minimises a failing scenario structurally: ddmin-style deletion over
// every list, then per-element simplification (integers toward 0, floats
// toward 0/1, booleans toward false), repeated to a fixpoint within a budget.
// Candidates that are not well typed are rejected by the tester.
func Shrink(raw []byte, test Tester, maxTests int, maxDur time.Duration) ([]byte, int) {
	start := time.Now()
	tests := 0
	cur := parseTree(raw)
	try := func(cand any) bool {
		if tests >= maxTests || time.Since(start) > maxDur {
			return false
		}
		b := marshalTree(cand)
		if bytes.Equal(b, marshalTree(cur)) {
			return false
		}
		tests++
		if test(b) {
			cur = parseTree(b)
			return true
		}
		return false
	}
	for round := 0; round < 12; round++ {
		changed := false
		// 1. list deletion, outermost lists first
		for {
			progress := false
			paths := listPaths(cur, nil)
			for _, p := range paths {
				node, ok := getPath(cur, p).([]any)
				if !ok || len(node) == 0 {
					continue
				}
				n := len(node)
				for size := n; size >= 1; size /= 2 {
					for from := 0; from+size <= n; {
						arr, _ := getPath(cur, p).([]any)
						if arr == nil || from+size > len(arr) {
							break
						}
						cand := cloneTree(cur)
						carr := getPath(cand, p).([]any)
						narr := append(append([]any{}, carr[:from]...), carr[from+size:]...)
						cand = setPath(cand, p, narr)
						if try(cand) {
							progress, changed = true, true
							n = len(narr)
						} else {
							from += size
						}
						if tests >= maxTests || time.Since(start) > maxDur {
							return marshalTree(cur), tests
						}
					}
					if size == 1 {
						break
					}
				}
			}
			if !progress {
				break
			}
		}
		// 2. hoist: replace an object by one of its same-shaped descendants
		// (a geometry by one of its members)
		for _, p := range objectPaths(cur, nil) {
			obj, ok := getPath(cur, p).(map[string]any)
			if !ok {
				continue
			}
			for _, key := range sortedKeysAny(obj) {
				kids, ok := obj[key].([]any)
				if !ok {
					continue
				}
				for _, kid := range kids {
					ko, ok := kid.(map[string]any)
					if !ok || !sameKeys(ko, obj) {
						continue
					}
					cand := setPath(cloneTree(cur), p, cloneTree(ko))
					if try(cand) {
						changed = true
						break
					}
				}
			}
		}
		// 3. scalar simplification
		for _, p := range scalarPaths(cur, nil) {
			v := getPath(cur, p)
			for _, alt := range simpler(v) {
				cand := setPath(cloneTree(cur), p, alt)
				if try(cand) {
					changed = true
					break
				}
			}
			if tests >= maxTests || time.Since(start) > maxDur {
				return marshalTree(cur), tests
			}
		}
		if !changed {
			break
		}
	}
	return marshalTree(cur), tests
}

func parseTree(raw []byte) any {
	d := json.NewDecoder(bytes.NewReader(raw))
	d.UseNumber()
	var v any
	if err := d.Decode(&v); err != nil {
		return nil
	}
	return v
}

func marshalTree(v any) []byte {
	b, _ := json.Marshal(v) // map keys are sorted by encoding/json
	return b
}

func cloneTree(v any) any {
	switch t := v.(type) {
	case []any:
		out := make([]any, len(t))
		for i := range t {
			out[i] = cloneTree(t[i])
		}
		return out
	case map[string]any:
		out := make(map[string]any, len(t))
		for k, x := range t {
			out[k] = cloneTree(x)
		}
		return out
	}
	return v
}

type pathElem struct {
	key string
	idx int
}

func sortedKeysAny(m map[string]any) []string {
	ks := make([]string, 0, len(m))
	for k := range m {
		ks = append(ks, k)
	}
	sort.Strings(ks)
	return ks
}

func sameKeys(a, b map[string]any) bool {
	// "same shape": both have the discriminating key "t"
	_, ta := a["t"]
	_, tb := b["t"]
	return ta && tb
}

func walk(v any, p []pathElem, f func(p []pathElem, v any)) {
	f(p, v)
	switch t := v.(type) {
	case []any:
		for i := range t {
			walk(t[i], append(append([]pathElem{}, p...), pathElem{idx: i}), f)
		}
	case map[string]any:
		for _, k := range sortedKeysAny(t) {
			walk(t[k], append(append([]pathElem{}, p...), pathElem{key: k, idx: -1}), f)
		}
	}
}

func listPaths(v any, p []pathElem) [][]pathElem {
	var out [][]pathElem
	walk(v, p, func(p []pathElem, v any) {
		if _, ok := v.([]any); ok {
			out = append(out, p)
		}
	})
	sort.SliceStable(out, func(i, j int) bool { return len(out[i]) < len(out[j]) })
	return out
}

func objectPaths(v any, p []pathElem) [][]pathElem {
	var out [][]pathElem
	walk(v, p, func(p []pathElem, v any) {
		if _, ok := v.(map[string]any); ok {
			out = append(out, p)
		}
	})
	return out
}

func scalarPaths(v any, p []pathElem) [][]pathElem {
	var out [][]pathElem
	walk(v, p, func(p []pathElem, v any) {
		switch v.(type) {
		case json.Number, string, bool:
			out = append(out, p)
		}
	})
	return out
}

func getPath(v any, p []pathElem) any {
	for _, e := range p {
		switch t := v.(type) {
		case []any:
			if e.idx < 0 || e.idx >= len(t) {
				return nil
			}
			v = t[e.idx]
		case map[string]any:
			v = t[e.key]
		default:
			return nil
		}
	}
	return v
}

func setPath(root any, p []pathElem, nv any) any {
	if len(p) == 0 {
		return nv
	}
	parent := getPath(root, p[:len(p)-1])
	last := p[len(p)-1]
	switch t := parent.(type) {
	case []any:
		if last.idx >= 0 && last.idx < len(t) {
			t[last.idx] = nv
		}
	case map[string]any:
		t[last.key] = nv
	}
	return root
}

func simpler(v any) []any {
	switch t := v.(type) {
	case bool:
		if t {
			return []any{false}
		}
	case json.Number:
		s := t.String()
		if i, err := strconv.ParseInt(s, 10, 64); err == nil {
			var out []any
			if i != 0 {
				out = append(out, json.Number("0"))
			}
			if i < 0 {
				out = append(out, json.Number(strconv.FormatInt(-i, 10)))
			}
			if i > 1 || i < -1 {
				out = append(out, json.Number("1"), json.Number(strconv.FormatInt(i/2, 10)))
			}
			if i > 2 {
				out = append(out, json.Number(strconv.FormatInt(i-1, 10)))
			}
			return out
		}
	case string:
		// float written by mgeom.F
		if t == "0" {
			return nil
		}
		if strings.HasPrefix(t, "0x") {
			return []any{"0", "1"}
		}
		if f, err := strconv.ParseFloat(t, 64); err == nil {
			out := []any{"0"}
			if f != 1 {
				out = append(out, "1")
			}
			if tr := strconv.FormatFloat(float64(int64(f)), 'g', -1, 64); tr != t && f > -1e15 && f < 1e15 {
				out = append(out, tr)
			}
			return out
		}
	}
	return nil
}
