package core

import (
	"fmt"
	"os"
	"regexp"
	"runtime"
	"strings"
	"sync/atomic"
	"syscall"
	"time"
)

// ExitHung is the exit code of a worker or exec process whose scenario in
// flight used more CPU time than a scenario can need.
const ExitHung = 67

// The watchdog decides "does not terminate" from the CPU time the process has
// burnt since the scenario in flight began, not from wall-clock time: a loaded,
// slow or suspended machine burns no CPU on our behalf, a loop that never ends
// does. Scenarios take micro- to milliseconds; the limit is seconds of CPU.
var wd struct {
	run  atomic.Uint64
	raw  atomic.Pointer[[]byte]
	live atomic.Bool
}

// WatchdogArm tells the watchdog that a new scenario starts now.
func WatchdogArm(raw []byte) {
	wd.raw.Store(&raw)
	wd.run.Add(1)
}

// WatchdogIdle tells the watchdog that no scenario is in flight.
func WatchdogIdle() { wd.raw.Store(nil); wd.run.Add(1) }

func cpuNow() time.Duration {
	var ru syscall.Rusage
	if err := syscall.Getrusage(syscall.RUSAGE_SELF, &ru); err != nil {
		return 0
	}
	return time.Duration(ru.Utime.Nano() + ru.Stime.Nano())
}

// CPU-time limits per scenario. A scenario is reported as non-terminating only
// after a fresh process has spent ExecHangCPU on it alone: a worker that gives
// up after WorkerHangCPU merely nominates it. Candidates tried while minimising
// get ShrinkHangCPU; the minimised scenario is confirmed with ExecHangCPU again
// (the unminimised one is kept otherwise). Ordinary scenarios take milliseconds;
// the largest size classes take a few seconds of CPU under the race detector.
const (
	WorkerHangCPU = 60 * time.Second
	ExecHangCPU   = 120 * time.Second
	ShrinkHangCPU = 10 * time.Second
)

// HangCPULimit returns the CPU-time limit per scenario (VERIF_HANG_CPU_S
// overrides the default given).
func HangCPULimit(def time.Duration) time.Duration {
	if s := os.Getenv("VERIF_HANG_CPU_S"); s != "" {
		var n int
		if _, err := fmt.Sscanf(s, "%d", &n); err == nil && n > 0 {
			return time.Duration(n) * time.Second
		}
	}
	return def
}

// memLimit is the heap+stack limit per process in bytes (VERIF_MEM_LIMIT_MB
// overrides the default of 3 GiB).
func memLimit() uint64 {
	if s := os.Getenv("VERIF_MEM_LIMIT_MB"); s != "" {
		var n uint64
		if _, err := fmt.Sscanf(s, "%d", &n); err == nil && n > 0 {
			return n << 20
		}
	}
	return 3 << 30
}

var geomFrame = regexp.MustCompile(`github\.com/twpayne/go-geom[^\s(]*`)

// StartWatchdog starts the watchdog goroutine. When the scenario in flight has
// used more than limit of CPU time, the scenario is written to hungFile (if
// not empty), "HUNG <signature>" and the stacks go to stderr, and the process
// exits with ExitHung.
func StartWatchdog(hungFile string, limit time.Duration) {
	if !wd.live.CompareAndSwap(false, true) {
		return
	}
	go func() {
		last := wd.run.Load()
		cpu0 := cpuNow()
		for {
			time.Sleep(250 * time.Millisecond)
			if rawp := wd.raw.Load(); rawp != nil {
				// memory: a scenario whose execution holds more than the limit
				// (default 3 GiB; scenarios need kilobytes to a few megabytes) is
				// stopped before it takes the machine down, and nominated like a
				// hung one (signature memory-blow-up)
				var ms runtime.MemStats
				runtime.ReadMemStats(&ms)
				if ms.HeapInuse+ms.StackInuse > memLimit() {
					buf := make([]byte, 1<<16)
					buf = buf[:runtime.Stack(buf, true)]
					sig := "memory-blow-up"
					if m := geomFrame.FindString(string(buf)); m != "" {
						sig += ":" + strings.TrimPrefix(m, "github.com/twpayne/")
					}
					if hungFile != "" {
						_ = os.WriteFile(hungFile, *rawp, 0o644)
					}
					fmt.Fprintf(os.Stderr, "HUNG %s\nthe scenario in flight holds %d MiB of heap and stack (limit %d MiB)\n%s\n", sig, (ms.HeapInuse+ms.StackInuse)>>20, memLimit()>>20, firstLines(string(buf), 40))
					os.Exit(ExitHung)
				}
			}
			cur := wd.run.Load()
			if cur != last {
				last, cpu0 = cur, cpuNow()
				continue
			}
			rawp := wd.raw.Load()
			if rawp == nil {
				cpu0 = cpuNow()
				continue
			}
			if used := cpuNow() - cpu0; used > limit {
				buf := make([]byte, 1<<16)
				buf = buf[:runtime.Stack(buf, true)]
				sig := "non-termination"
				if m := geomFrame.FindString(string(buf)); m != "" {
					sig += ":" + strings.TrimPrefix(m, "github.com/twpayne/")
				}
				if hungFile != "" {
					_ = os.WriteFile(hungFile, *rawp, 0o644)
				}
				fmt.Fprintf(os.Stderr, "HUNG %s\nthe scenario in flight has used %.1f s of CPU time without finishing (limit %.0f s)\n%s\n", sig, used.Seconds(), limit.Seconds(), firstLines(string(buf), 40))
				os.Exit(ExitHung)
			}
		}
	}()
}

// hungSig extracts the signature from a hung process's output.
func hungSig(out string) string {
	for _, ln := range strings.Split(out, "\n") {
		if strings.HasPrefix(ln, "HUNG ") {
			return strings.TrimSpace(strings.TrimPrefix(ln, "HUNG "))
		}
	}
	return "non-termination"
}

func hungDetail(out string) string {
	i := strings.Index(out, "HUNG ")
	if i < 0 {
		return lastLines(out, 20)
	}
	return firstLines(out[i:], 24)
}
