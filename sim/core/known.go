package core

import (
	"bufio"
	"os"
	"strings"
)

// Known is one line of the known-findings file.
//
//	known: property=<id> sig=<signature> <what fails>
//	fixed: property=<id> <commit> <what failed>
//
// Only "known:" lines suppress anything; "fixed:" lines are a record.
type Known struct {
	Fixed    bool
	Property string
	Sig      string
	Text     string
}

// LoadKnown parses the known-findings file; a missing file is an empty list.
// The file is never written at run time.
func LoadKnown(path string) ([]Known, error) {
	f, err := os.Open(path)
	if err != nil {
		if os.IsNotExist(err) {
			return nil, nil
		}
		return nil, err
	}
	defer f.Close()
	var out []Known
	s := bufio.NewScanner(f)
	for s.Scan() {
		line := strings.TrimSpace(s.Text())
		var k Known
		switch {
		case strings.HasPrefix(line, "known:"):
			line = strings.TrimSpace(strings.TrimPrefix(line, "known:"))
		case strings.HasPrefix(line, "fixed:"):
			k.Fixed = true
			line = strings.TrimSpace(strings.TrimPrefix(line, "fixed:"))
		default:
			continue
		}
		fields := strings.Fields(line)
		rest := []string{}
		for _, f := range fields {
			switch {
			case strings.HasPrefix(f, "property=") && k.Property == "":
				k.Property = strings.TrimPrefix(f, "property=")
			case strings.HasPrefix(f, "sig=") && k.Sig == "" && !k.Fixed:
				k.Sig = strings.TrimPrefix(f, "sig=")
			default:
				rest = append(rest, f)
			}
		}
		k.Text = strings.Join(rest, " ")
		out = append(out, k)
	}
	return out, s.Err()
}

// MatchKnown returns the open known finding that lists exactly this
// signature, or nil.
func MatchKnown(known []Known, prop, sig string) *Known {
	for i := range known {
		k := &known[i]
		if !k.Fixed && k.Property == prop && k.Sig == sig {
			return k
		}
	}
	return nil
}
