// Package core is the simulation kernel shared by all checks: one integer
// (VERIF_SEED) -> per-run seeds -> closed scenarios (Generate is the only code
// that draws random numbers) -> Execute (a pure function of the scenario and
// the code under test) -> verdict, event-log hash and counters.
package core

import (
	"encoding/json"
	"fmt"
	"hash/fnv"
	"runtime/debug"
	"sort"
	"strings"

	"verif/sim/prng"
)

// Log is the event log of one execution. Every entry is hashed; the text is
// kept only in verbose (replay) mode. Logging never draws random numbers and
// never reads a clock.
type Log struct {
	h       uint64
	Verbose bool
	Lines   []string
	N       int
}

// NewLog returns an empty log.
func NewLog(verbose bool) *Log { return &Log{h: 14695981039346656037, Verbose: verbose} }

// Addf appends one event.
func (l *Log) Addf(format string, args ...any) {
	if l == nil {
		return
	}
	s := fmt.Sprintf(format, args...)
	for i := 0; i < len(s); i++ {
		l.h ^= uint64(s[i])
		l.h *= 1099511628211
	}
	l.h ^= 0xff
	l.h *= 1099511628211
	l.N++
	if l.Verbose {
		l.Lines = append(l.Lines, s)
	}
}

// Hash returns the hash of all events so far.
func (l *Log) Hash() uint64 { return l.h }

// SetHash installs the hash a child process computed for its log.
func (l *Log) SetHash(h uint64) { l.h = h }

// Violation describes a property violation found by one execution.
type Violation struct {
	// Class is the kind of violation; shrinking preserves it.
	Class string `json:"class"`
	// Sig identifies the failing call site / input feature for the
	// known-findings file; it must be stable under shrinking.
	Sig string `json:"sig"`
	// Detail is the first differing observation, for humans.
	Detail string `json:"detail"`
}

// Result is what one execution reports.
type Result struct {
	Violation  *Violation
	Invalid    bool   // the scenario is not well typed (only met while shrinking)
	Skipped    bool   // generated but deliberately not executed (reason in StateKey)
	Nontrivial bool   // by the property's stated rule
	StateKey   string // what the distinct-state measure hashes
	Steps      int    // reader/writer calls or operations
	Counters   map[string]int64
}

// Count increments a counter.
func (r *Result) Count(name string, n int64) {
	if r.Counters == nil {
		r.Counters = map[string]int64{}
	}
	r.Counters[name] += n
}

// Fail records a violation (the first one wins).
func (r *Result) Fail(class, sig, format string, args ...any) {
	if r.Violation == nil {
		r.Violation = &Violation{Class: class, Sig: sig, Detail: fmt.Sprintf(format, args...)}
	}
}

// Phase is one part of a check: a number of runs of one scenario family in one
// kind of worker binary.
type Phase struct {
	Name string
	Race bool // runs in the -race worker
	Runs int
	// MaxProcs: GOMAXPROCS of the worker process (0 = leave default).
	MaxProcs int
	// SerialWorkers: number of worker processes (0 = one per core).
	Workers int
	// Fresh: every run executes in a process of its own (the worker starts
	// one child per scenario), so that each scenario meets the library as a
	// program's first use of it does: nothing initialised yet, no earlier call.
	Fresh bool
}

// Property is one simulated check.
type Property interface {
	ID() string
	// Plan lists the phases of a tier ("quick" or "thorough").
	Plan(tier string) []Phase
	// Generate draws a closed scenario for a phase. It is the only place that
	// uses the PRNG.
	Generate(r *prng.Rand, phase string) any
	// Decode parses a scenario from JSON (strictly).
	Decode(raw []byte) (any, error)
	// Execute runs a scenario against the code under test.
	Execute(sc any, phase string, log *Log) Result
	// Describe returns evidence texts.
	Describe() Description
}

// Description carries the per-property texts of the evidence file.
type Description struct {
	Level          string
	Rule           string
	StateMeasure   string
	Assumptions    []string
	RealComponents []string
	StubComponents []string
	FaultKinds     []string // counter names that are fault kinds
	Probes         []string // counter names that are reach probes
}

var registry = map[string]Property{}

// Register adds a property to the registry.
func Register(p Property) { registry[p.ID()] = p }

// Lookup finds a property.
func Lookup(id string) (Property, bool) { p, ok := registry[id]; return p, ok }

// IDs lists the registered property ids in order.
func IDs() []string {
	var ids []string
	for id := range registry {
		ids = append(ids, id)
	}
	sort.Strings(ids)
	return ids
}

// HashBytes is the scenario hash.
func HashBytes(b []byte) uint64 {
	h := fnv.New64a()
	h.Write(b)
	return h.Sum64()
}

// HashString hashes a state key.
func HashString(s string) uint64 {
	h := fnv.New64a()
	h.Write([]byte(s))
	return h.Sum64()
}

// SafeExecute runs Execute and converts a panic of the harness itself into an
// error (panics of the code under test are caught closer to the call and
// reported as violations by the property).
func SafeExecute(p Property, sc any, phase string, log *Log) (res Result, err error) {
	defer func() {
		if r := recover(); r != nil {
			err = fmt.Errorf("harness panic: %v\n%s", r, debug.Stack())
		}
	}()
	return p.Execute(sc, phase, log), nil
}

// Guard calls f and returns a description of its panic, or "".
func Guard(f func()) (panicked string) {
	defer func() {
		if r := recover(); r != nil {
			st := string(debug.Stack())
			// keep the frames of the code under test only
			var keep []string
			for _, ln := range strings.Split(st, "\n") {
				if strings.Contains(ln, "go-geom") || strings.Contains(ln, "/repo/") {
					keep = append(keep, strings.TrimSpace(ln))
				}
				if len(keep) >= 8 {
					break
				}
			}
			panicked = fmt.Sprintf("%v [%s]", r, strings.Join(keep, " <- "))
		}
	}()
	f()
	return ""
}

// PanicSite extracts a stable call-site signature (first go-geom function in
// the stack) from Guard's output.
func PanicSite(p string) string {
	i := strings.Index(p, "[")
	if i < 0 {
		return "unknown"
	}
	rest := p[i+1:]
	if j := strings.Index(rest, " <- "); j >= 0 {
		rest = rest[:j]
	}
	rest = strings.TrimSuffix(rest, "]")
	if j := strings.LastIndex(rest, "("); j > 0 {
		rest = rest[:j]
	}
	if j := strings.LastIndex(rest, "/"); j >= 0 {
		rest = rest[j+1:]
	}
	return rest
}

// Replay is the replay file.
type Replay struct {
	Property string          `json:"property"`
	Phase    string          `json:"phase"`
	Seed     uint64          `json:"seed"`
	Run      uint64          `json:"run"`
	Class    string          `json:"class"`
	Sig      string          `json:"sig"`
	Detail   string          `json:"detail"`
	Shrunk   bool            `json:"minimised"`
	// Intermittent: the same scenario shows the violation in some executions
	// and not in others (the library's answer depends on something outside the
	// scenario, e.g. map iteration order); replay retries up to 80 times.
	Intermittent bool `json:"intermittent,omitempty"`
	// Prelude: scenarios that must be executed in the same process before the
	// failing one (the violation depends on state the library keeps between
	// calls). Empty for ordinary, self-contained violations.
	Prelude  []json.RawMessage `json:"prelude,omitempty"`
	Scenario json.RawMessage   `json:"scenario"`
}
