module verif/sim

go 1.22

require github.com/twpayne/go-geom v1.5.7

require github.com/twpayne/go-kml/v3 v3.2.1 // indirect

replace github.com/twpayne/go-geom => /repo
