// Package c08 decides order- and duplication-independence of Bounds.Extend the
// way replica convergence is decided: R replicas (each a *geom.Bounds) receive
// the same bag of geometries through a simulated network that reorders and
// duplicates deliveries; every replica is compared with a named-dimension
// reference model after every delivery and all replicas must agree at
// quiescence. Tightness, emptiness, collection recursion and the overlap
// predicates are side conditions of the same run.
package c08

import (
	"bytes"
	"encoding/json"
	"fmt"
	"math"
	"sort"
	"strings"

	geom "github.com/twpayne/go-geom"
	"github.com/twpayne/go-geom/encoding/geojson"

	"verif/sim/core"
	"verif/sim/mgeom"
	"verif/sim/prng"
)

// Scenario is one closed C08 scenario.
type Scenario struct {
	L0         int           `json:"l0"`         // initial layout of every replica
	Msgs       []*mgeom.Geom `json:"msgs"`       // the bag
	Deliveries [][]int       `json:"deliveries"` // per replica: message indexes in delivery order
	Points     []mgeom.Coord `json:"points"`     // probe points for the point-overlap test
	// Later are things that happen to the messages after their bounds were
	// first asked for; the bounds asked for afterwards must be those of the
	// geometry as it is then.
	Later []Later `json:"later,omitempty"`
	// Wide are non-collection geometries in layouts of more than four
	// dimensions; only their own Bounds() and a same-layout Extend are checked
	// (dimension i of the box is ordinate i), they are not delivered to the
	// replicas: what mixing such a layout with XYZ/XYM/XYZM means is not stated.
	Wide []*mgeom.Geom `json:"wide,omitempty"`
	// DefLayout, when not 0, is geojson.DefaultLayout during the run: the
	// bounding box of a geometry does not depend on it.
	DefLayout int `json:"def_layout,omitempty"`
}

// Later is one step of a message's later life.
//
//	extend-returned  b := Msgs[Msg].Bounds(); b.Extend(Msgs[Add]) — the returned box is the caller's to change
//	push             a fresh copy of Msgs[Add] is pushed into the collection found at Path inside Msgs[Msg]
//	write            ordinate Ord of the non-collection found at Path inside Msgs[Msg] is overwritten with V
//	badsetcoords     SetCoords is called on the non-collection found at Path with its own coordinates plus one
//	                 far-away coordinate and then one of the wrong length: the call must fail, and whatever the
//	                 receiver then holds, its bounds are the box of the coordinates it reports
//	setlayout        SetLayout(the layout it reports) is called on the collection found at Path inside Msgs[Msg]
//	                 (whether that succeeds is not this property's business; the coordinates are what they were)
type Later struct {
	K    string  `json:"k"`
	Msg  int     `json:"msg"`
	Path []int   `json:"path,omitempty"`
	Add  int     `json:"add,omitempty"`
	Ord  int     `json:"ord,omitempty"`
	V    mgeom.F `json:"v,omitempty"`
}

type prop struct{}

func init() { core.Register(prop{}) }

func (prop) ID() string { return "C08" }

func (prop) Plan(tier string) []core.Phase {
	if tier == "thorough" {
		return []core.Phase{{Name: "net", Runs: 100000000}}
	}
	return []core.Phase{{Name: "net", Runs: 2500000}}
}

func (prop) Describe() core.Description {
	return core.Description{
		Level: "exploration",
		Rule: "A scenario is an initial layout (NoLayout/XY/XYZ/XYM/XYZM), a bag of 1-12 generated geometries (7 types, collections nested up to 3 deep with mixed member layouts, empties, finite ordinates) and, for each of 2-4 replicas, a delivery sequence that contains every message at least once in a seeded order with seeded duplicates. Afterwards 0-3 seeded steps of the messages' later life (the caller extends a box that Bounds() returned, a member is pushed into a possibly nested collection, an ordinate is overwritten through FlatCoords()) are each followed by asking for the bounds again; in 15% of the runs 1-2 extra geometries with five or six ordinates per coordinate have their own bounds checked dimension by dimension. A run is non-trivial when at least two replicas received the first copies of the messages in different orders and the bag holds coordinates in at least two different layouts, or when a duplicate delivery happened after other data arrived.",
		StateMeasure: "distinct (initial layout, multiset of message layouts, per-replica first-delivery order) tuples",
		Assumptions: []string{
			"no NaN ordinates and only XY/XYZ/XYM/XYZM (and NoLayout for the initial box), as the property states",
			"min/max are compared numerically (-0 equals +0)",
			"a message that is never delivered legitimately changes the answer, so the simulated network only reorders, delays and duplicates; every message reaches every replica before quiescence",
		},
		RealComponents: []string{"go-geom root package: Bounds (NewBounds, Extend, Min, Max, Layout, IsEmpty, Overlaps, OverlapsPoint, Polygon, Clone), T.Bounds() of all seven types", "encoding/geojson (Marshal with EncodeGeometryWithBBox)"},
		StubComponents: []string{"the network between message source and replicas (seeded delivery order and duplication)"},
		FaultKinds:     []string{"reordered-delivery", "duplicate-delivery"},
		Probes:         []string{"probe:xym-then-xyz", "probe:xyz-then-xym", "probe:xym-into-xyzm", "probe:xyz-into-xyzm", "probe:nested-collection-message", "probe:collection-message", "probe:empty-message-promotes-layout", "probe:mixed-layout-collection-bounds", "probe:push-into-nested-collection-after-bounds", "probe:layout>4-bounds", "probe:returned-polygon-scribbled", "probe:adjacent-boxes", "probe:overlap-true", "probe:overlap-false", "probe:point-overlap-true", "probe:point-overlap-false", "probe:geojson-bbox-checked", "probe:geojson-bbox-with-crs", "probe:bbox-option-value-reused"},
	}
}

func (prop) Decode(raw []byte) (any, error) {
	var s Scenario
	d := json.NewDecoder(bytes.NewReader(raw))
	d.DisallowUnknownFields()
	if err := d.Decode(&s); err != nil {
		return nil, err
	}
	if s.L0 < 0 || s.L0 > 4 {
		return nil, fmt.Errorf("bad initial layout")
	}
	for _, m := range s.Msgs {
		if m == nil {
			return nil, fmt.Errorf("nil message")
		}
		if err := valid(m, 0); err != nil {
			return nil, err
		}
	}
	if len(s.Deliveries) < 1 {
		return nil, fmt.Errorf("no replica")
	}
	for _, d := range s.Deliveries {
		for _, i := range d {
			if i < 0 || i >= len(s.Msgs) {
				return nil, fmt.Errorf("delivery of unknown message %d", i)
			}
		}
	}
	for _, p := range s.Points {
		for _, o := range p {
			if math.IsNaN(float64(o)) {
				return nil, fmt.Errorf("NaN point")
			}
		}
	}
	if s.DefLayout < 0 || s.DefLayout > 4 {
		return nil, fmt.Errorf("bad default layout")
	}
	if len(s.Later) > 8 || len(s.Wide) > 4 {
		return nil, fmt.Errorf("too many later steps / wide geometries")
	}
	for _, m := range s.Wide {
		if m == nil || m.T == mgeom.GC || mgeom.Level(m.T) < 0 || m.L < 5 || m.L > 7 {
			return nil, fmt.Errorf("bad wide geometry")
		}
		bad := false
		m.EachCoord(func(_ int, c mgeom.Coord) {
			for _, o := range c {
				if math.IsNaN(float64(o)) {
					bad = true
				}
			}
		})
		if bad {
			return nil, fmt.Errorf("NaN ordinate")
		}
	}
	for _, l := range s.Later {
		if l.K != "extend-returned" && l.K != "push" && l.K != "write" && l.K != "setlayout" && l.K != "badsetcoords" {
			return nil, fmt.Errorf("bad later step %q", l.K)
		}
		if l.Msg < 0 || l.Msg >= len(s.Msgs) || l.Add < 0 || l.Add >= len(s.Msgs) || l.Ord < 0 || len(l.Path) > 1024 || math.IsNaN(float64(l.V)) || math.IsInf(float64(l.V), 0) {
			return nil, fmt.Errorf("bad later step")
		}
		for _, i := range l.Path {
			if i < 0 {
				return nil, fmt.Errorf("bad path")
			}
		}
	}
	return &s, nil
}

func valid(g *mgeom.Geom, depth int) error {
	if depth > 80 {
		return fmt.Errorf("too deep")
	}
	if mgeom.Level(g.T) < 0 && g.T != mgeom.GC {
		return fmt.Errorf("bad type %q", g.T)
	}
	if g.T != mgeom.GC && (g.L < 0 || g.L > 4 || (g.L == 0 && g.NumCoords() > 0)) {
		return fmt.Errorf("bad layout %d", g.L)
	}
	if g.T == mgeom.GC && (g.L < 0 || g.L > 4) {
		return fmt.Errorf("bad layout %d", g.L)
	}
	bad := false
	g.EachCoord(func(_ int, c mgeom.Coord) {
		for _, o := range c {
			if math.IsNaN(float64(o)) {
				bad = true
			}
		}
	})
	if bad {
		return fmt.Errorf("NaN ordinate")
	}
	for _, c := range g.G {
		if c == nil {
			return fmt.Errorf("nil member")
		}
		if err := valid(c, depth+1); err != nil {
			return err
		}
		if g.Fixed && c.EffLayout() != g.L {
			return fmt.Errorf("fixed layout mismatch")
		}
	}
	return nil
}

func (prop) Generate(r *prng.Rand, phase string) any {
	s := &Scenario{L0: r.Intn(5)}
	cfg := mgeom.SwarmCfg(r, []int{1, 2, 3, 4})
	cfg.FloatMode = []int{0, 0, 2, 2, 4}[r.Intn(5)] // small; any finite value; any ordered value (the statement excludes NaN only)
	cfg.SRIDMode = 0
	if cfg.MaxCoords > 8 && cfg.ExactCoords == 0 {
		cfg.MaxCoords = 8
	}
	if r.Chance(0.05) {
		cfg.MaxCoords = 48 // long enough for unrolled or blocked folds to engage
	}
	types := append([]string{mgeom.LR}, mgeom.AllTypes...)
	n := r.Range(1, []int{2, 3, 5, 12}[r.Intn(4)])
	for i := 0; i < n; i++ {
		t := types[r.Intn(len(types))]
		if r.Chance(0.5) {
			t = cfg.Types[r.Intn(len(cfg.Types))]
		}
		if t != mgeom.GC && r.Chance(0.01) {
			// a geometry created without a layout (it can only be empty)
			s.Msgs = append(s.Msgs, (&mgeom.Geom{T: t, L: 0}).Norm())
			continue
		}
		s.Msgs = append(s.Msgs, cfg.Gen(r, t, 1+r.Intn(4), 0))
	}
	if r.Chance(0.25) {
		// spatial reference identifiers on collections and on their members,
		// equal or not: bounds are about ordinates only
		for _, m := range s.Msgs {
			mgeom.DecorateSRIDs(r, m, 0.6)
		}
	}
	if r.Chance(0.0004) {
		// one very long line (a parallel or chunked fold would engage): the
		// first and last coordinates and one in the middle hold the extremes
		l := 1 + r.Intn(4)
		st := mgeom.Stride(l)
		nc := []int{4096, 20000, 33000}[r.Intn(3)] + r.Intn(7)
		cs := make([]mgeom.Coord, nc)
		for i := range cs {
			c := make(mgeom.Coord, st)
			for j := range c {
				c[j] = mgeom.F(float64((i*7+j*13)%1000) - 500)
			}
			cs[i] = c
		}
		for j := 0; j < st; j++ {
			cs[0][j], cs[nc/2+j][j], cs[nc-1][j] = 5000+mgeom.F(j), -7000-mgeom.F(j), 6000+mgeom.F(j)
		}
		s.Msgs = append(s.Msgs, &mgeom.Geom{T: mgeom.LS, L: l, P: [][][]mgeom.Coord{{cs}}})
		n++
	}
	if r.Chance(0.004) {
		// a geometry at the bottom of a deep chain of collections
		inner := cfg.Gen(r, types[r.Intn(len(types))], 1+r.Intn(4), 3)
		for d := []int{10, 33, 64}[r.Intn(3)]; d > 0; d-- {
			inner = &mgeom.Geom{T: mgeom.GC, L: inner.EffLayout(), G: []*mgeom.Geom{inner}}
		}
		s.Msgs = append(s.Msgs, inner)
		n++
	}
	if r.Chance(0.15) {
		s.DefLayout = 1 + r.Intn(4)
	}
	reps := r.Range(2, 4)
	for k := 0; k < reps; k++ {
		var d []int
		mode := r.Intn(4)
		switch mode {
		case 0: // in order
			for i := 0; i < n; i++ {
				d = append(d, i)
			}
		case 1: // reversed
			for i := n - 1; i >= 0; i-- {
				d = append(d, i)
			}
		default:
			d = r.Perm(n)
		}
		// duplicates
		for j := r.Pick(3, 2, 1, 1); j > 0; j-- {
			pos := r.Intn(len(d) + 1)
			d = append(d[:pos:pos], append([]int{r.Intn(n)}, d[pos:]...)...)
		}
		s.Deliveries = append(s.Deliveries, d)
	}
	for i := r.Range(1, 4); i > 0; i-- {
		p := make(mgeom.Coord, 4)
		for j := range p {
			p[j] = mgeom.F(r.SmallFloat())
		}
		s.Points = append(s.Points, p)
	}
	if r.Chance(0.15) {
		for i := r.Range(1, 2); i > 0; i-- {
			flat := []string{mgeom.Pt, mgeom.LS, mgeom.LR, mgeom.Pg, mgeom.MPt, mgeom.MLS, mgeom.MPg}
			s.Wide = append(s.Wide, cfg.Gen(r, flat[r.Intn(len(flat))], 5+r.Intn(2), 0))
		}
	}
	for i := r.Pick(3, 2, 2, 1); i > 0; i-- {
		l := Later{K: []string{"extend-returned", "push", "write", "setlayout", "badsetcoords"}[r.Pick(3, 3, 3, 1, 2)], Msg: r.Intn(n), Add: r.Intn(n), Ord: r.Intn(64), V: mgeom.F(r.SmallFloat())}
		if l.K == "push" || l.K == "setlayout" {
			// prefer a collection message when there is one
			for tries := 0; tries < 4 && s.Msgs[l.Msg].T != mgeom.GC; tries++ {
				l.Msg = r.Intn(n)
			}
		}
		// a path into the message as generated (steps that find nothing at
		// their path at run time are skipped)
		for m := s.Msgs[l.Msg]; m.T == mgeom.GC && len(m.G) > 0 && (l.K == "write" || l.K == "badsetcoords" || r.Chance(0.6)); {
			k := r.Intn(len(m.G))
			l.Path = append(l.Path, k)
			m = m.G[k]
		}
		s.Later = append(s.Later, l)
	}
	return s
}

// box is the named-dimension reference model: X, Y, Z, M -> [min, max].
type box struct {
	has      [4]bool
	min, max [4]float64
}

func (b *box) add(d int, v float64) {
	if !b.has[d] {
		b.has[d], b.min[d], b.max[d] = true, v, v
		return
	}
	if v < b.min[d] {
		b.min[d] = v
	}
	if v > b.max[d] {
		b.max[d] = v
	}
}

func (b *box) merge(o box) {
	for d := 0; d < 4; d++ {
		if o.has[d] {
			b.add(d, o.min[d])
			b.add(d, o.max[d])
		}
	}
}

// dimsOf lists the named dimension (0 X, 1 Y, 2 Z, 3 M) of each ordinate of a
// layout, from the layout definitions.
func dimsOf(l int) []int {
	switch l {
	case 1:
		return []int{0, 1}
	case 2:
		return []int{0, 1, 2}
	case 3:
		return []int{0, 1, 3}
	case 4:
		return []int{0, 1, 2, 3}
	}
	return nil
}

func modelBox(m *mgeom.Geom) box {
	var b box
	m.EachCoord(func(l int, c mgeom.Coord) {
		ds := dimsOf(l)
		for i, o := range c {
			if i < len(ds) {
				b.add(ds[i], float64(o))
			}
		}
	})
	return b
}

var dimName = [4]string{"X", "Y", "Z", "M"}

// indexOf returns where layout l keeps named dimension d, or -1.
func indexOf(l geom.Layout, d int) int {
	switch d {
	case 0:
		if l.Stride() >= 1 {
			return 0
		}
	case 1:
		if l.Stride() >= 2 {
			return 1
		}
	case 2:
		return l.ZIndex()
	case 3:
		return l.MIndex()
	}
	return -1
}

// compare checks a library box against the model. exact: dimensions without
// data must be empty (+Inf, -Inf).
func compare(b *geom.Bounds, want box) string {
	l := b.Layout()
	for d := 0; d < 4; d++ {
		idx := indexOf(l, d)
		if want.has[d] {
			if idx < 0 || idx >= l.Stride() {
				return fmt.Sprintf("layout %s has no place for dimension %s, which has data [%g, %g]", l, dimName[d], want.min[d], want.max[d])
			}
			if b.Min(idx) != want.min[d] || b.Max(idx) != want.max[d] {
				return fmt.Sprintf("dimension %s (index %d of %s) is [%g, %g], the coordinates span [%g, %g]", dimName[d], idx, l, b.Min(idx), b.Max(idx), want.min[d], want.max[d])
			}
		} else if idx >= 0 && idx < l.Stride() {
			if !(b.Max(idx) < b.Min(idx)) {
				return fmt.Sprintf("dimension %s (index %d of %s) is [%g, %g] although no coordinate carries it", dimName[d], idx, l, b.Min(idx), b.Max(idx))
			}
		}
	}
	return ""
}

func describeBounds(b *geom.Bounds) string {
	var sb strings.Builder
	fmt.Fprintf(&sb, "%s{", b.Layout())
	for i := 0; i < b.Layout().Stride(); i++ {
		fmt.Fprintf(&sb, "[%g,%g]", b.Min(i), b.Max(i))
	}
	sb.WriteString("}")
	return sb.String()
}

// finite reports whether every ordinate is finite and every Z dimension the
// box would carry has data (JSON cannot carry infinities).
func finite(m *mgeom.Geom) bool {
	ok := true
	hasZLayout, hasZData := false, false
	m.EachCoord(func(l int, c mgeom.Coord) {
		for _, o := range c {
			if math.IsInf(float64(o), 0) || math.IsNaN(float64(o)) {
				ok = false
			}
		}
		if l == 2 || l == 4 {
			hasZData = true
		}
	})
	var walk func(g *mgeom.Geom)
	walk = func(g *mgeom.Geom) {
		if g.T == mgeom.GC {
			if g.Fixed && (g.L == 2 || g.L == 4) {
				hasZLayout = true
			}
			for _, c := range g.G {
				walk(c)
			}
			return
		}
		if g.L == 2 || g.L == 4 {
			hasZLayout = true
		}
	}
	walk(m)
	return ok && (!hasZLayout || hasZData)
}

func layoutsIn(m *mgeom.Geom, withCoordsOnly bool, out map[int]bool) {
	if m.T == mgeom.GC {
		for _, g := range m.G {
			layoutsIn(g, withCoordsOnly, out)
		}
		return
	}
	if !withCoordsOnly || m.NumCoords() > 0 {
		out[m.L] = true
	}
}

func hasNested(m *mgeom.Geom) bool {
	for _, g := range m.G {
		if g.T == mgeom.GC {
			return true
		}
	}
	return false
}

func (prop) Execute(scAny any, phase string, log *core.Log) core.Result {
	s := scAny.(*Scenario)
	var res core.Result
	if s.DefLayout != 0 {
		old := geojson.DefaultLayout
		geojson.DefaultLayout = geom.Layout(s.DefLayout)
		defer func() { geojson.DefaultLayout = old }()
		res.Count("probe:geojson-default-layout-set", 1)
	}
	n := len(s.Msgs)
	geoms := make([]geom.T, n)
	boxes := make([]box, n)
	msgBounds := make([]*geom.Bounds, n)
	layoutsWithData := map[int]bool{}
	// one bounding-box option value for the whole run, as an application that
	// builds its options once has it; the documents encoded with it are kept
	// and written out only after all of them have been encoded
	sharedBBox := geojson.EncodeGeometryWithBBox()
	type keptDoc struct {
		i    int
		ge   *geojson.Geometry
		want []float64
	}
	var keptDocs []keptDoc
	for i, m := range s.Msgs {
		m = m.Clone().Norm()
		g, err := mgeom.Build(m)
		if err != nil {
			res.Fail("build", "build:"+m.T, "building message %d failed: %v; model %s", i, err, m)
			return res
		}
		geoms[i] = g
		boxes[i] = modelBox(m)
		layoutsIn(m, true, layoutsWithData)
		if m.T == mgeom.GC {
			res.Count("probe:collection-message", 1)
			if hasNested(m) {
				res.Count("probe:nested-collection-message", 1)
			}
			ls := map[int]bool{}
			layoutsIn(m, true, ls)
			if len(ls) > 1 {
				res.Count("probe:mixed-layout-collection-bounds", 1)
			}
		}
		// side condition: the geometry's own bounds are the tight box
		var b *geom.Bounds
		if p := core.Guard(func() { b = g.Bounds() }); p != "" {
			res.Fail("panic", "panic:bounds:"+core.PanicSite(p)+":"+memberKind(m), "%s.Bounds() panicked: %s; model %s", m.T, p, m)
			return res
		}
		res.Steps++
		log.Addf("msg %d %s layout %d bounds %s", i, m.T, m.EffLayout(), describeBounds(b))
		if d := compare(b, boxes[i]); d != "" {
			res.Fail("bounds-not-tight", "bounds-not-tight:"+m.T, "Bounds() of message %d: %s; got %s; model %s", i, d, describeBounds(b), m)
			return res
		}
		empty := m.NumCoords() == 0
		if empty && !b.IsEmpty() {
			res.Fail("empty-not-empty", "empty-not-empty:"+m.T, "message %d has no coordinates but its bounds %s are not empty; model %s", i, describeBounds(b), m)
			return res
		}
		// The converse is only demanded of non-collections (every dimension
		// of the layout then has data); a collection mixing layouts has
		// dimensions without data and legitimately reports empty.
		if !empty && m.T != mgeom.GC && b.IsEmpty() {
			res.Fail("nonempty-empty", "nonempty-empty:"+m.T, "message %d has coordinates but its bounds %s report empty; model %s", i, describeBounds(b), m)
			return res
		}
		if m.T != mgeom.GC && int(b.Layout()) != m.L {
			res.Fail("bounds-layout", "bounds-layout:"+m.T, "Bounds() of a %s with layout %d has layout %s", m.T, m.L, b.Layout())
			return res
		}
		msgBounds[i] = b
		// Bounds.Polygon: the box as a two-dimensional polygon
		var poly *geom.Polygon
		if p := core.Guard(func() { poly = b.Polygon() }); p != "" {
			res.Fail("panic", "panic:polygon:"+core.PanicSite(p), "Bounds.Polygon() panicked: %s", p)
			return res
		}
		res.Steps++
		if b.IsEmpty() {
			if poly == nil || poly.Layout() != geom.XY || len(poly.FlatCoords()) != 0 {
				res.Fail("bounds-polygon-wrong", "bounds-polygon-wrong:empty", "Polygon() of the empty box %s is not the empty XY polygon", describeBounds(b))
				return res
			}
		} else {
			var pb box
			if poly != nil && poly.Layout() == geom.XY {
				fc := poly.FlatCoords()
				for k := 0; k+1 < len(fc); k += 2 {
					pb.add(0, fc[k])
					pb.add(1, fc[k+1])
				}
			}
			if !pb.has[0] || pb.min[0] != b.Min(0) || pb.max[0] != b.Max(0) || pb.min[1] != b.Min(1) || pb.max[1] != b.Max(1) || poly.NumLinearRings() != 1 {
				res.Fail("bounds-polygon-wrong", "bounds-polygon-wrong", "Polygon() of the box %s is %v", describeBounds(b), poly.FlatCoords())
				return res
			}
		}
		// The polygon is the caller's: whatever the caller does to it must not
		// show in the polygon of any other (or the same) box later on.
		if poly != nil {
			core.Guard(func() {
				poly.SetSRID(4326 + i)
				_ = poly.Push(geom.NewLinearRingFlat(geom.XY, []float64{7, 7, 8, 8, 9, 7, 7, 7}))
				if fc := poly.FlatCoords(); len(fc) > 0 {
					fc[0] = -12345
				}
			})
			res.Count("probe:returned-polygon-scribbled", 1)
		}
		// A bounding box that was asked for is in the document whenever the
		// document is produced, whatever other options stand next to it (for
		// every geometry, empty ones too: those have no box to write and the
		// call has to say so).
		if i < 3 {
			var js2 []byte
			var jerr2 error
			crs := &geojson.CRS{Type: "name", Properties: map[string]interface{}{"name": "EPSG:4326"}}
			if p := core.Guard(func() {
				js2, jerr2 = geojson.Marshal(g, geojson.EncodeGeometryWithBBox(), geojson.EncodeGeometryWithCRS(crs))
			}); p != "" {
				res.Fail("panic", "panic:geojson-bbox:"+core.PanicSite(p), "geojson.Marshal with a bounding box and a CRS panicked on %s: %s", m, p)
				return res
			}
			res.Steps++
			if jerr2 == nil {
				var doc map[string]json.RawMessage
				if err := json.Unmarshal(js2, &doc); err != nil {
					res.Fail("geojson-bbox-wrong", "geojson-bbox-wrong:not-json", "geojson.Marshal with a bounding box and a CRS produced invalid JSON %s: %v", js2, err)
					return res
				}
				if bb, ok := doc["bbox"]; !ok || string(bb) == "null" {
					res.Fail("geojson-bbox-wrong", "geojson-bbox-missing:"+m.T, "geojson.Marshal of %s with EncodeGeometryWithBBox and EncodeGeometryWithCRS reported success, and the document has no bounding box: %s", m, js2)
					return res
				}
				res.Count("probe:geojson-bbox-with-crs", 1)
			}
		}
		// the GeoJSON bounding box is the same box (non-empty geometries only:
		// an empty box has no JSON representation)
		if !empty && finite(m) {
			var js []byte
			var jerr error
			if p := core.Guard(func() { js, jerr = geojson.Marshal(g, geojson.EncodeGeometryWithBBox()) }); p != "" {
				res.Fail("panic", "panic:geojson-bbox:"+core.PanicSite(p), "geojson.Marshal with a bounding box panicked on %s: %s", m, p)
				return res
			}
			res.Steps++
			if jerr != nil {
				res.Count("geojson-bbox-not-encodable", 1)
			} else {
				var doc struct {
					BBox []float64 `json:"bbox"`
				}
				if err := json.Unmarshal(js, &doc); err != nil {
					res.Fail("geojson-bbox-wrong", "geojson-bbox-wrong:not-json", "geojson.Marshal with a bounding box produced invalid JSON %s: %v", js, err)
					return res
				}
				want := []float64{boxes[i].min[0], boxes[i].min[1], boxes[i].max[0], boxes[i].max[1]}
				if zi := b.Layout().ZIndex(); zi >= 0 && b.Layout() != geom.NoLayout {
					zmin, zmax := math.Inf(1), math.Inf(-1)
					if boxes[i].has[2] {
						zmin, zmax = boxes[i].min[2], boxes[i].max[2]
					}
					want = []float64{boxes[i].min[0], boxes[i].min[1], zmin, boxes[i].max[0], boxes[i].max[1], zmax}
				}
				same := len(doc.BBox) == len(want)
				for k := range want {
					if same && doc.BBox[k] != want[k] {
						same = false
					}
				}
				res.Count("probe:geojson-bbox-checked", 1)
				if !same {
					res.Fail("geojson-bbox-wrong", "geojson-bbox-wrong:"+m.T, "the GeoJSON bounding box of %s is %v, the coordinates span %v", m, doc.BBox, want)
					return res
				}
				if len(keptDocs) < 3 {
					var ge *geojson.Geometry
					var eerr error
					if p := core.Guard(func() { ge, eerr = geojson.Encode(g, sharedBBox) }); p != "" {
						res.Fail("panic", "panic:geojson-bbox:"+core.PanicSite(p), "geojson.Encode with a bounding box panicked on %s: %s", m, p)
						return res
					}
					if eerr == nil && ge != nil {
						keptDocs = append(keptDocs, keptDoc{i, ge, want})
					}
				}
				// With a maximum number of decimal digits the box is the box of
				// the numbers that are written: rounding is monotone, so every
				// bbox number equals the min/max of the emitted ordinates of its
				// dimension (no rounding is re-implemented here).
				if m.T != mgeom.GC && (m.L == 1 || m.L == 2 || m.L == 4) && i < 2 && (len(s.Deliveries[0])+len(s.Points))%3 == 0 {
					// (reflection makes this the costliest call of the run: one
					// run in three, the first two messages)
					digits := (i*7 + len(s.Msgs)) % 7
					if !bboxMatchesEmitted(&res, g, m, digits) {
						return res
					}
				}
			}
		}
	}
	// the documents encoded with the one option value, written out now: each
	// still carries the box of its own geometry
	for _, kd := range keptDocs {
		var js []byte
		var jerr error
		if p := core.Guard(func() { js, jerr = json.Marshal(kd.ge) }); p != "" || jerr != nil {
			res.Fail("geojson-bbox-wrong", "geojson-bbox-wrong:kept-document", "writing out the document encoded for message %d failed: %v %s", kd.i, jerr, p)
			return res
		}
		var doc struct {
			BBox []float64 `json:"bbox"`
		}
		if err := json.Unmarshal(js, &doc); err != nil {
			res.Fail("geojson-bbox-wrong", "geojson-bbox-wrong:not-json", "the document encoded for message %d is invalid JSON %s: %v", kd.i, js, err)
			return res
		}
		same := len(doc.BBox) == len(kd.want)
		for k := range kd.want {
			if same && doc.BBox[k] != kd.want[k] {
				same = false
			}
		}
		if !same {
			res.Fail("geojson-bbox-wrong", "geojson-bbox-wrong:kept-document", "the document encoded for message %d with an option value that was then used for other geometries carries the bounding box %v when it is written out; its coordinates span %v", kd.i, doc.BBox, kd.want)
			return res
		}
		if len(keptDocs) >= 2 {
			res.Count("probe:bbox-option-value-reused", 1)
		}
	}
	// replicas
	reps := make([]*geom.Bounds, len(s.Deliveries))
	models := make([]box, len(s.Deliveries))
	var snaps []*geom.Bounds
	var snapModels []box
	firstOrders := make([]string, len(s.Deliveries))
	dupAfterData := false
	for k, del := range s.Deliveries {
		b := geom.NewBounds(geom.Layout(s.L0))
		seen := map[int]bool{}
		var first []string
		for step, mi := range del {
			prevLayout := b.Layout()
			if seen[mi] {
				res.Count("duplicate-delivery", 1)
				if step > 0 {
					dupAfterData = true
				}
			} else {
				first = append(first, fmt.Sprint(mi))
			}
			seen[mi] = true
			var ret *geom.Bounds
			if p := core.Guard(func() { ret = b.Extend(geoms[mi]) }); p != "" {
				res.Fail("panic", "panic:extend:"+core.PanicSite(p)+":"+memberKind(s.Msgs[mi]), "replica %d: Extend(message %d, a %s) panicked: %s; model %s", k, mi, s.Msgs[mi].T, p, s.Msgs[mi])
				return res
			}
			res.Steps++
			if ret != b {
				res.Fail("extend-return", "extend-return", "Extend returned a different *Bounds than its receiver")
				return res
			}
			models[k].merge(boxes[mi])
			log.Addf("replica %d step %d deliver %d -> %s", k, step, mi, describeBounds(b))
			ml := s.Msgs[mi].EffLayout()
			switch {
			case prevLayout == geom.XYM && ml == 2:
				res.Count("probe:xym-then-xyz", 1)
			case prevLayout == geom.XYZ && ml == 3:
				res.Count("probe:xyz-then-xym", 1)
			case prevLayout == geom.XYZM && ml == 3:
				res.Count("probe:xym-into-xyzm", 1)
			case prevLayout == geom.XYZM && ml == 2:
				res.Count("probe:xyz-into-xyzm", 1)
			}
			if s.Msgs[mi].NumCoords() == 0 && b.Layout() != prevLayout {
				res.Count("probe:empty-message-promotes-layout", 1)
			}
			if d := compare(b, models[k]); d != "" {
				res.Fail("replica-diverges-from-model", "replica-diverges-from-model:"+prevLayout.String()+"+"+geom.Layout(ml).String(), "replica %d after delivery %d (message %d, layout %s, into a %s box): %s; box now %s; deliveries so far %v", k, step, mi, geom.Layout(ml), prevLayout, d, describeBounds(b), del[:step+1])
				return res
			}
			if step == len(del)/2 {
				// a copy of the box as it is now: a value of its own from here on
				snaps = append(snaps, b.Clone())
				snapModels = append(snapModels, models[k])
			}
		}
		// every message must have been delivered
		for i := 0; i < n; i++ {
			if !seen[i] {
				res.Invalid = true
				return res
			}
		}
		reps[k] = b
		firstOrders[k] = strings.Join(first, ",")
	}
	// the copies taken half way are still what they were, whatever was delivered
	// to the replicas they were taken from afterwards; and extending a copy
	// does not reach the replica
	for i, sb := range snaps {
		if d := compare(sb, snapModels[i]); d != "" {
			res.Fail("copy-follows-original", "copy-follows-original", "a Clone() taken of a replica half way through its deliveries changed while the replica went on: %s; copy now %s", d, describeBounds(sb))
			return res
		}
	}
	if len(snaps) > 0 && len(reps) > 0 && len(geoms) > 0 {
		before := describeBounds(reps[0])
		c := reps[0].Clone()
		core.Guard(func() { c.Extend(geom.NewPointFlat(geom.XY, []float64{-9e15, 9e15})) })
		if after := describeBounds(reps[0]); after != before {
			res.Fail("copy-follows-original", "original-follows-copy", "extending a Clone() of replica 0 changed the replica from %s to %s", before, after)
			return res
		}
	}
	// quiescence: all replicas agree
	for k := 1; k < len(reps); k++ {
		a, b := reps[0], reps[k]
		same := a.Layout() == b.Layout()
		if same {
			for i := 0; i < a.Layout().Stride(); i++ {
				if a.Min(i) != b.Min(i) || a.Max(i) != b.Max(i) {
					same = false
				}
			}
		}
		if !same {
			res.Fail("replicas-diverge", "replicas-diverge", "after the same bag of messages replica 0 holds %s and replica %d holds %s; orders %v vs %v", describeBounds(a), k, describeBounds(b), s.Deliveries[0], s.Deliveries[k])
			return res
		}
		if firstOrders[k] != firstOrders[0] {
			res.Count("reordered-delivery", 1)
		}
	}
	// overlap predicates against closed-interval arithmetic on observed boxes
	all := append(append([]*geom.Bounds{}, reps...), snaps...)
	for _, b := range msgBounds {
		all = append(all, b)
	}
	for i := 0; i < len(all) && i < 6; i++ {
		for j := 0; j < len(all) && j < 10; j++ {
			a, b := all[i], all[j]
			ms := a.Layout().Stride()
			if b.Layout().Stride() < ms {
				ms = b.Layout().Stride()
			}
			for _, l := range []geom.Layout{geom.XY, geom.XYZ, geom.XYZM} {
				if l.Stride() > ms {
					continue
				}
				want := true
				for d := 0; d < l.Stride(); d++ {
					if a.Min(d) > b.Max(d) || a.Max(d) < b.Min(d) {
						want = false
					}
				}
				var got bool
				if p := core.Guard(func() { got = a.Overlaps(l, b) }); p != "" {
					res.Fail("panic", "panic:overlaps:"+core.PanicSite(p), "Overlaps panicked: %s", p)
					return res
				}
				res.Steps++
				if got {
					res.Count("probe:overlap-true", 1)
				} else {
					res.Count("probe:overlap-false", 1)
				}
				if got != want {
					res.Fail("overlaps-wrong", "overlaps-wrong", "%s.Overlaps(%s, %s) = %v, closed-interval arithmetic says %v", describeBounds(a), l, describeBounds(b), got, want)
					return res
				}
			}
		}
		pts := append([]mgeom.Coord(nil), s.Points...)
		if a := all[i]; a.Layout().Stride() >= 2 && a.Layout() != geom.NoLayout {
			// points on the box's own corners and edges (closed intervals include them)
			lo, hi, mix := make(mgeom.Coord, 4), make(mgeom.Coord, 4), make(mgeom.Coord, 4)
			for d := 0; d < 4; d++ {
				if d < a.Layout().Stride() {
					lo[d], hi[d] = mgeom.F(a.Min(d)), mgeom.F(a.Max(d))
					mix[d] = lo[d]
					if d%2 == 1 {
						mix[d] = hi[d]
					}
				}
			}
			pts = append(pts, lo, hi, mix)
			// ... and the nearest representable values just outside and just
			// inside an edge (no tolerance belongs into an interval test)
			for d := 0; d < a.Layout().Stride() && d < 4; d++ {
				if math.IsInf(float64(hi[d]), 0) || math.IsInf(float64(lo[d]), 0) || a.Min(d) > a.Max(d) {
					continue
				}
				out := append(mgeom.Coord(nil), hi...)
				out[d] = mgeom.F(math.Nextafter(float64(hi[d]), math.Inf(1)))
				in := append(mgeom.Coord(nil), lo...)
				in[d] = mgeom.F(math.Nextafter(float64(lo[d]), math.Inf(-1)))
				pts = append(pts, out, in)
			}
			// a second box that begins one representable value beyond this
			// one's upper edge in one dimension, and one that begins exactly on it
			if st := a.Layout().Stride(); st <= 4 && i < 3 {
				for _, nudge := range []bool{true, false} {
					args := make([]float64, 2*st)
					ok := true
					for d := 0; d < st; d++ {
						args[d], args[st+d] = a.Min(d), a.Max(d)
						if a.Min(d) > a.Max(d) || math.IsInf(a.Max(d), 0) {
							ok = false
						}
					}
					if !ok {
						break
					}
					d0 := (i + len(pts)) % st
					args[d0] = a.Max(d0)
					if nudge {
						args[d0] = math.Nextafter(a.Max(d0), math.Inf(1))
					}
					args[st+d0] = math.Nextafter(args[d0], math.Inf(1))
					nb := geom.NewBounds(a.Layout()).Set(args...)
					for _, l := range []geom.Layout{geom.XY, geom.XYZ, geom.XYZM} {
						if l.Stride() > st {
							continue
						}
						want := !(nudge && d0 < l.Stride())
						var g1, g2 bool
						if p := core.Guard(func() { g1, g2 = a.Overlaps(l, nb), nb.Overlaps(l, a) }); p != "" {
							res.Fail("panic", "panic:overlaps:"+core.PanicSite(p), "Overlaps panicked: %s", p)
							return res
						}
						if g1 != want || g2 != want {
							res.Fail("overlaps-wrong", "overlaps-wrong:adjacent", "%s.Overlaps(%s, %s) = %v and the other way round %v, closed-interval arithmetic says %v (the second box begins %s the first one's upper edge in dimension %d)", describeBounds(a), l, describeBounds(nb), g1, g2, want, map[bool]string{true: "one representable value beyond", false: "exactly on"}[nudge], d0)
							return res
						}
						res.Count("probe:adjacent-boxes", 1)
					}
				}
			}
		}
		for _, pt := range pts {
			a := all[i]
			for _, l := range []geom.Layout{geom.XY, geom.XYZ, geom.XYZM} {
				if l.Stride() > a.Layout().Stride() || l.Stride() > len(pt) {
					continue
				}
				c := make(geom.Coord, len(pt))
				for d := range pt {
					c[d] = float64(pt[d])
				}
				want := true
				for d := 0; d < l.Stride(); d++ {
					if a.Min(d) > c[d] || a.Max(d) < c[d] {
						want = false
					}
				}
				var got bool
				if p := core.Guard(func() { got = a.OverlapsPoint(l, c) }); p != "" {
					res.Fail("panic", "panic:overlapspoint:"+core.PanicSite(p), "OverlapsPoint panicked: %s", p)
					return res
				}
				res.Steps++
				if got {
					res.Count("probe:point-overlap-true", 1)
				} else {
					res.Count("probe:point-overlap-false", 1)
				}
				if got != want {
					res.Fail("overlaps-point-wrong", "overlaps-point-wrong", "%s.OverlapsPoint(%s, %v) = %v, closed-interval arithmetic says %v", describeBounds(a), l, c, got, want)
					return res
				}
			}
		}
	}
	if !laterLife(&res, log, s, geoms) {
		return res
	}
	if !wideBounds(&res, log, s) {
		return res
	}
	// Last of all the caller overwrites every coordinate of every message: a
	// box is a value of its own, neither the replicas nor the boxes Bounds()
	// returned earlier may follow.
	for _, g := range geoms {
		scribbleCoords(g)
	}
	for k, b := range reps {
		if d := compare(b, models[k]); d != "" {
			res.Fail("box-aliases-geometry", "box-aliases-geometry:replica", "replica %d changed when the caller overwrote the coordinates of the delivered geometries: %s; box now %s", k, d, describeBounds(b))
			return res
		}
	}
	for i, b := range msgBounds {
		if d := compare(b, boxes[i]); d != "" {
			res.Fail("box-aliases-geometry", "box-aliases-geometry:"+s.Msgs[i].T, "the box Bounds() returned for message %d changed when the caller overwrote the message's coordinates: %s; box now %s", i, d, describeBounds(b))
			return res
		}
	}
	reordered := res.Counters["reordered-delivery"] > 0
	res.Nontrivial = (reordered && len(layoutsWithData) >= 2) || dupAfterData
	var ls []string
	for _, m := range s.Msgs {
		ls = append(ls, fmt.Sprint(m.EffLayout()))
	}
	sort.Strings(ls)
	res.StateKey = fmt.Sprintf("%d|%s|%s", s.L0, strings.Join(ls, ""), strings.Join(firstOrders, ";"))
	return res
}

// wideBounds checks Bounds() and a same-layout Extend of geometries with more
// than four ordinates per coordinate: dimension i of the box is the tight
// range of ordinate i.
func wideBounds(res *core.Result, log *core.Log, s *Scenario) bool {
	for wi, m0 := range s.Wide {
		m := m0.Clone().Norm()
		g, err := mgeom.Build(m)
		if err != nil {
			res.Fail("build", "build:"+m.T, "building wide geometry %d failed: %v; model %s", wi, err, m)
			return false
		}
		st := mgeom.Stride(m.L)
		lo, hi := make([]float64, st), make([]float64, st)
		for i := range lo {
			lo[i], hi[i] = math.Inf(1), math.Inf(-1)
		}
		n := 0
		m.EachCoord(func(_ int, c mgeom.Coord) {
			n++
			for i, o := range c {
				lo[i], hi[i] = math.Min(lo[i], float64(o)), math.Max(hi[i], float64(o))
			}
		})
		res.Count("probe:layout>4-bounds", 1)
		for _, how := range []string{"Bounds()", "NewBounds(same layout).Extend"} {
			var b *geom.Bounds
			if p := core.Guard(func() {
				if how == "Bounds()" {
					b = g.Bounds()
				} else {
					b = geom.NewBounds(geom.Layout(m.L)).Extend(g)
				}
			}); p != "" {
				res.Fail("panic", "panic:wide-bounds:"+core.PanicSite(p), "%s of a %s with %d ordinates per coordinate panicked: %s", how, m.T, st, p)
				return false
			}
			res.Steps++
			if int(b.Layout()) != m.L {
				res.Fail("bounds-layout", "bounds-layout:wide:"+m.T, "%s of a %s with layout %d has layout %s", how, m.T, m.L, b.Layout())
				return false
			}
			for i := 0; i < st; i++ {
				var bl, bh float64
				if p := core.Guard(func() { bl, bh = b.Min(i), b.Max(i) }); p != "" {
					res.Fail("bounds-not-tight", "bounds-not-tight:wide:"+m.T, "%s of a %s with %d ordinates per coordinate has no dimension %d", how, m.T, st, i)
					return false
				}
				if bl != lo[i] || bh != hi[i] {
					res.Fail("bounds-not-tight", "bounds-not-tight:wide:"+m.T, "%s of %s: dimension %d is [%g, %g], ordinate %d spans [%g, %g]", how, m, i, bl, bh, i, lo[i], hi[i])
					return false
				}
			}
			if (n == 0) != b.IsEmpty() {
				res.Fail("empty-not-empty", "emptiness:wide:"+m.T, "%s of %s (%d coordinates) reports IsEmpty() = %v", how, m, n, b.IsEmpty())
				return false
			}
		}
		log.Addf("wide %d %s layout %d ok", wi, m.T, m.L)
	}
	return true
}

// bboxMatchesEmitted marshals g with a bounding box and a maximum number of
// decimal digits and compares the bbox numbers with the min/max of the
// coordinates as emitted in the same document.
func bboxMatchesEmitted(res *core.Result, g geom.T, m *mgeom.Geom, digits int) bool {
	var js []byte
	var jerr error
	if p := core.Guard(func() {
		js, jerr = geojson.Marshal(g, geojson.EncodeGeometryWithBBox(), geojson.EncodeGeometryWithMaxDecimalDigits(digits))
	}); p != "" {
		res.Fail("panic", "panic:geojson-bbox-digits:"+core.PanicSite(p), "geojson.Marshal with bbox and %d decimal digits panicked on %s: %s", digits, m, p)
		return false
	}
	res.Steps++
	if jerr != nil {
		res.Fail("geojson-bbox-wrong", "geojson-bbox-wrong:digits-error", "geojson.Marshal of %s with a bounding box and at most %d decimal digits failed: %v (it succeeds without the digits option)", m, digits, jerr)
		return false
	}
	var doc struct {
		BBox        []float64 `json:"bbox"`
		Coordinates any       `json:"coordinates"`
	}
	if err := json.Unmarshal(js, &doc); err != nil {
		res.Fail("geojson-bbox-wrong", "geojson-bbox-wrong:not-json", "geojson.Marshal with bbox and %d decimal digits produced invalid JSON %s: %v", digits, js, err)
		return false
	}
	lo := []float64{math.Inf(1), math.Inf(1), math.Inf(1)}
	hi := []float64{math.Inf(-1), math.Inf(-1), math.Inf(-1)}
	var walk func(v any)
	walk = func(v any) {
		arr, ok := v.([]any)
		if !ok || len(arr) == 0 {
			return
		}
		if _, isNum := arr[0].(float64); isNum {
			for d := 0; d < len(arr) && d < 3; d++ {
				if f, ok := arr[d].(float64); ok {
					lo[d], hi[d] = math.Min(lo[d], f), math.Max(hi[d], f)
				}
			}
			return
		}
		for _, x := range arr {
			walk(x)
		}
	}
	walk(doc.Coordinates)
	nd := len(doc.BBox) / 2
	res.Count("probe:geojson-bbox-with-max-digits", 1)
	if len(doc.BBox) != 4 && len(doc.BBox) != 6 {
		res.Fail("geojson-bbox-wrong", "geojson-bbox-wrong:digits", "with at most %d decimal digits the bounding box of %s has %d numbers: %s", digits, m, len(doc.BBox), js)
		return false
	}
	for d := 0; d < nd; d++ {
		if doc.BBox[d] != lo[d] || doc.BBox[nd+d] != hi[d] {
			res.Fail("geojson-bbox-wrong", "geojson-bbox-wrong:digits", "with at most %d decimal digits the bounding box of %s is %v but the coordinates written in the same document span %v..%v: %s", digits, m, doc.BBox, lo[:nd], hi[:nd], js)
			return false
		}
	}
	return true
}

// badSetCoords calls SetCoords on g with the coordinates of its model m, then
// one far-away coordinate of the right length and one coordinate that is one
// ordinate too long, both appended to the last innermost list.
func badSetCoords(g geom.T, m *mgeom.Geom, far float64) error {
	st := mgeom.Stride(m.L)
	good, bad := make(geom.Coord, st), make(geom.Coord, st+1)
	for i := range good {
		good[i] = 1e6 + far
	}
	for i := range bad {
		bad[i] = -1e6 + far
	}
	lib := func(cs []mgeom.Coord) []geom.Coord {
		out := make([]geom.Coord, len(cs))
		for i, c := range cs {
			out[i] = make(geom.Coord, len(c))
			for j, o := range c {
				out[i][j] = float64(o)
			}
		}
		return out
	}
	lib2 := func(css [][]mgeom.Coord) [][]geom.Coord {
		out := make([][]geom.Coord, len(css))
		for i := range css {
			out[i] = lib(css[i])
		}
		return out
	}
	var err error
	switch g := g.(type) {
	case *geom.Point:
		_, err = g.SetCoords(bad)
	case *geom.LineString:
		_, err = g.SetCoords(append(lib(m.P[0][0]), good, bad))
	case *geom.LinearRing:
		_, err = g.SetCoords(append(lib(m.P[0][0]), good, bad))
	case *geom.MultiPoint:
		cs := make([]geom.Coord, 0, len(m.P[0])+2)
		for _, pt := range m.P[0] {
			if len(pt) == 1 {
				cs = append(cs, lib(pt)[0])
			} else {
				cs = append(cs, nil)
			}
		}
		_, err = g.SetCoords(append(cs, good, bad))
	case *geom.Polygon:
		rings := lib2(m.P[0])
		if len(rings) == 0 {
			rings = [][]geom.Coord{{}}
		}
		rings[len(rings)-1] = append(rings[len(rings)-1], good, bad)
		_, err = g.SetCoords(rings)
	case *geom.MultiLineString:
		lines := lib2(m.P[0])
		if len(lines) == 0 {
			lines = [][]geom.Coord{{}}
		}
		lines[len(lines)-1] = append(lines[len(lines)-1], good, bad)
		_, err = g.SetCoords(lines)
	case *geom.MultiPolygon:
		polys := make([][][]geom.Coord, len(m.P))
		for i := range m.P {
			polys[i] = lib2(m.P[i])
		}
		if len(polys) == 0 {
			polys = [][][]geom.Coord{{{}}}
		}
		last := len(polys) - 1
		if len(polys[last]) == 0 {
			polys[last] = [][]geom.Coord{{}}
		}
		lr := len(polys[last]) - 1
		polys[last][lr] = append(polys[last][lr], good, bad)
		_, err = g.SetCoords(polys)
	default:
		err = fmt.Errorf("no SetCoords on %T", g)
	}
	return err
}

// coordsBox folds the nested coordinates a non-collection reports through
// Coords() into the named-dimension box; ok is false when Coords() panics.
func coordsBox(g geom.T, layout int) (b box, ok bool) {
	ds := dimsOf(layout)
	add := func(c geom.Coord) {
		for i, o := range c {
			if i < len(ds) {
				b.add(ds[i], o)
			}
		}
	}
	p := core.Guard(func() {
		switch g := g.(type) {
		case *geom.Point:
			if !g.Empty() {
				add(g.Coords())
			}
		case *geom.LineString:
			for _, c := range g.Coords() {
				add(c)
			}
		case *geom.LinearRing:
			for _, c := range g.Coords() {
				add(c)
			}
		case *geom.MultiPoint:
			for _, c := range g.Coords() {
				if c != nil {
					add(c)
				}
			}
		case *geom.Polygon:
			for _, r := range g.Coords() {
				for _, c := range r {
					add(c)
				}
			}
		case *geom.MultiLineString:
			for _, r := range g.Coords() {
				for _, c := range r {
					add(c)
				}
			}
		case *geom.MultiPolygon:
			for _, pg := range g.Coords() {
				for _, r := range pg {
					for _, c := range r {
						add(c)
					}
				}
			}
		}
	})
	return b, p == ""
}

func scribbleCoords(g geom.T) {
	if gc, ok := g.(*geom.GeometryCollection); ok {
		for _, c := range gc.Geoms() {
			scribbleCoords(c)
		}
		return
	}
	fc := g.FlatCoords()
	for i := range fc {
		fc[i] = -8.25e6 - float64(i)
	}
}

// laterLife applies the Later steps to the (normalised) message models and to
// the library objects alike and asks for the bounds again after each step.
func laterLife(res *core.Result, log *core.Log, s *Scenario, geoms []geom.T) bool {
	if len(s.Later) == 0 {
		return true
	}
	cur := make([]*mgeom.Geom, len(s.Msgs))
	for i, m := range s.Msgs {
		cur[i] = m.Clone().Norm()
	}
	spoiled := map[int]bool{}
	for li, l := range s.Later {
		if spoiled[l.Msg] || (l.K == "extend-returned" && spoiled[l.Add]) {
			res.Count("later:skipped", 1)
			continue
		}
		m, g := cur[l.Msg], geoms[l.Msg]
		what := fmt.Sprintf("later step %d (%s on message %d)", li, l.K, l.Msg)
		switch l.K {
		case "extend-returned":
			var b *geom.Bounds
			if p := core.Guard(func() { b = g.Bounds(); b.Extend(geoms[l.Add]) }); p != "" {
				res.Fail("panic", "panic:later:"+core.PanicSite(p), "%s panicked: %s", what, p)
				return false
			}
			res.Count("later:extend-returned", 1)
		case "push", "write", "setlayout", "badsetcoords":
			// walk to the target
			ok := true
			for _, k := range l.Path {
				gc, isGC := g.(*geom.GeometryCollection)
				if m.T != mgeom.GC || !isGC || k >= len(m.G) || k >= gc.NumGeoms() {
					ok = false
					break
				}
				m, g = m.G[k], gc.Geom(k)
			}
			if !ok {
				res.Count("later:skipped", 1)
				continue
			}
			if l.K == "badsetcoords" {
				if m.T == mgeom.GC || m.L == 0 {
					res.Count("later:skipped", 1)
					continue
				}
				var serr error
				if p := core.Guard(func() { serr = badSetCoords(g, m, float64(l.V)) }); p != "" {
					res.Fail("panic", "panic:later:"+core.PanicSite(p), "%s: SetCoords with a coordinate of the wrong length panicked: %s", what, p)
					return false
				}
				if serr == nil {
					// accepting it is another property's business (C01)
					res.Count("later:skipped", 1)
				} else {
					res.Count("later:setcoords-rejected", 1)
				}
				// whatever the receiver holds now is what it reports
				// the receiver's bounds are the box of the coordinates it
				// reports through Coords(), well-formed or not
				if cb, ok := coordsBox(g, m.L); ok {
					var gb *geom.Bounds
					if p := core.Guard(func() { gb = g.Bounds() }); p == "" {
						if d := compare(gb, cb); d != "" {
							res.Fail("bounds-stale", "bounds-differ-from-reported-coordinates:"+m.T, "after %s (rejected: %v) the %s's Bounds() are %s but the coordinates Coords() reports span something else: %s", what, serr, m.T, describeBounds(gb), d)
							return false
						}
					}
				}
				obs, oerr := mgeom.Observe(geoms[l.Msg])
				if oerr != nil {
					// The rejected SetCoords left an ill-formed receiver (on
					// the pinned tree a MultiPoint keeps the end offsets of
					// the points before the bad one over nil coordinates).
					// That is C01's business, which this technique does not
					// decide; nothing about bounds is stated for a geometry
					// whose coordinates cannot be read. The message is left
					// alone from here on.
					res.Count("probe:ill-formed-after-rejected-setcoords", 1)
					spoiled[l.Msg] = true
					continue
				}
				cur[l.Msg] = obs
			} else if l.K == "setlayout" {
				gc, isGC := g.(*geom.GeometryCollection)
				if m.T != mgeom.GC || !isGC {
					res.Count("later:skipped", 1)
					continue
				}
				var serr error
				if p := core.Guard(func() { serr = gc.SetLayout(gc.Layout()) }); p != "" {
					res.Fail("panic", "panic:later:"+core.PanicSite(p), "%s: SetLayout panicked: %s", what, p)
					return false
				}
				if serr == nil {
					res.Count("later:setlayout", 1)
				} else {
					res.Count("later:setlayout-refused", 1)
				}
			} else if l.K == "push" {
				gc, isGC := g.(*geom.GeometryCollection)
				if m.T != mgeom.GC || !isGC {
					res.Count("later:skipped", 1)
					continue
				}
				// the message as it was generated (a later life may have made
				// cur[l.Add] something its own constructors would refuse)
				add := s.Msgs[l.Add].Clone().Norm()
				ag, err := mgeom.Build(add)
				if err != nil {
					res.Fail("build", "build:"+add.T, "building %s failed: %v", add, err)
					return false
				}
				var perr error
				if p := core.Guard(func() { perr = gc.Push(ag) }); p != "" {
					res.Fail("panic", "panic:later:"+core.PanicSite(p), "%s: Push panicked: %s", what, p)
					return false
				}
				mismatch := m.Fixed && m.L != 0 && add.EffLayout() != m.L
				if (perr != nil) != mismatch {
					// what Push accepts is C02's business; here only the box counts
					res.Count("later:skipped", 1)
					if perr == nil {
						m.G = append(m.G, add)
					}
				} else if perr == nil {
					m.G = append(m.G, add)
					res.Count("later:push", 1)
					if len(l.Path) > 0 {
						res.Count("probe:push-into-nested-collection-after-bounds", 1)
					}
				}
			} else {
				if m.T == mgeom.GC {
					res.Count("later:skipped", 1)
					continue
				}
				fc := g.FlatCoords()
				if len(fc) == 0 {
					res.Count("later:skipped", 1)
					continue
				}
				idx := l.Ord % len(fc)
				fc[idx] = float64(l.V)
				// the same ordinate of the model
				k := 0
				for a := range m.P {
					for b := range m.P[a] {
						for c := range m.P[a][b] {
							for d := range m.P[a][b][c] {
								if k == idx {
									m.P[a][b][c][d] = l.V
								}
								k++
							}
						}
					}
				}
				if k != len(fc) {
					panic(fmt.Sprintf("C08 harness: model has %d ordinates, geometry %d", k, len(fc)))
				}
				res.Count("later:write", 1)
			}
		}
		want := modelBox(cur[l.Msg])
		var b *geom.Bounds
		if p := core.Guard(func() { b = geoms[l.Msg].Bounds() }); p != "" {
			res.Fail("panic", "panic:later-bounds:"+core.PanicSite(p), "Bounds() after %s panicked: %s", what, p)
			return false
		}
		res.Steps++
		log.Addf("%s -> %s", what, describeBounds(b))
		if d := compare(b, want); d != "" {
			res.Fail("bounds-stale", "bounds-stale:"+l.K+":"+cur[l.Msg].T, "Bounds() asked again after %s: %s; got %s; the geometry is now %s", what, d, describeBounds(b), cur[l.Msg])
			return false
		}
		// the same box by the other route: a fresh box extended by the message as a whole
		var b2 *geom.Bounds
		if p := core.Guard(func() { b2 = geom.NewBounds(geom.NoLayout).Extend(geoms[l.Msg]) }); p != "" {
			res.Fail("panic", "panic:later-extend:"+core.PanicSite(p), "NewBounds().Extend(message) after %s panicked: %s", what, p)
			return false
		}
		res.Steps++
		if d := compare(b2, want); d != "" {
			res.Fail("bounds-stale", "extend-differs:"+l.K+":"+cur[l.Msg].T, "NewBounds().Extend(message) after %s: %s; got %s; the geometry is now %s", what, d, describeBounds(b2), cur[l.Msg])
			return false
		}
	}
	return true
}

// memberKind names what kind of member made a collection special (for
// signatures).
func memberKind(m *mgeom.Geom) string {
	if m.T != mgeom.GC {
		return m.T
	}
	if hasNested(m) {
		return "collection-with-collection-member"
	}
	return "collection"
}
