// Package c04 simulates what reaches a binary decoder when the bytes are not
// the bytes a correct encoder wrote: valid reference encodings are stored on a
// simulated medium, corrupted by a closed edit list (truncation, bit flips,
// byte sets, count/type/byte-order/SRID-flag forgeries aimed with the reference
// field map, duplicated/dropped/spliced sub-records) and decoded under a
// per-run configuration of the element limits through every entry point. A
// shadow parser and an allocation meter decide the outcome.
package c04

import (
	"bytes"
	"encoding/hex"
	"encoding/json"
	"fmt"
	"runtime"
	"strings"

	geom "github.com/twpayne/go-geom"

	"verif/sim/c03"
	"verif/sim/core"
	"verif/sim/mgeom"
	"verif/sim/prng"
	"verif/sim/refwkb"
	"verif/sim/simio"
	"verif/sim/wkbadapt"
)

// Scenario is one closed C04 scenario.
type Scenario struct {
	Mode   string         `json:"mode"` // edit | trunc
	Codec  refwkb.Codec   `json:"codec"`
	Limits refwkb.Limits  `json:"limits"`
	Geom   *mgeom.Geom    `json:"geom"`
	Edits  []simio.Edit   `json:"edits,omitempty"`
	Read   simio.ReadPlan `json:"read"`
	// HexEdits corrupt the hex text itself (odd length, characters that are
	// not hex digits) on its way to the hex decoders.
	HexEdits []simio.Edit `json:"hex_edits,omitempty"`
	// RCap: "byte" = the simulated reader also offers io.ByteReader.
	RCap string `json:"rcap,omitempty"`
}

// Dangerous reports whether a broken limit check could let this scenario
// allocate enough to kill the process (see core.Inflight).
func (s *Scenario) Dangerous() bool {
	for _, e := range s.Edits {
		if e.K == "u32" && e.V > 1<<22 {
			return true
		}
		if e.K == "insert" && e.N == 1 {
			// arbitrary bytes may hold any count
			return true
		}
	}
	return false
}

type prop struct{}

func init() { core.Register(prop{}) }

func (prop) ID() string { return "C04" }

func (prop) Plan(tier string) []core.Phase {
	if tier == "thorough" {
		return []core.Phase{{Name: "trunc", Runs: 4000000}, {Name: "edit", Runs: 80000000}}
	}
	return []core.Phase{{Name: "trunc", Runs: 100000}, {Name: "edit", Runs: 2000000}}
}

func (prop) Describe() core.Description {
	return core.Description{
		Level: "exploration",
		Rule: "A scenario is a generated valid geometry, a codec (wkb, wkb NaN mode, ewkb) x byte order, a limit vector (each level disabled or drawn from {0,1,2,3,8,64,1000}) and a closed edit list applied to the reference encoding: truncate, flip 1-3 bits, set a byte, forge a count field (values around the level's limit, around the true count, 2^16, 2^20, 2^22, 2^31-1, 2^31, 2^32-1 — with the level's limit disabled only values the remaining input can back), forge a type word (unknown ids, 15-17, dimension codes >= 4000, stray EWKB flag bits, another valid type => child type mismatch, another dimension => child layout mismatch), forge the byte-order byte, toggle the EWKB SRID flag, duplicate/drop/replace a whole sub-geometry, replace everything after a field boundary by arbitrary bytes; in 15% of the runs the hex text handed to the hex decoders is itself corrupted (cut to odd length, characters that are not hex digits). The edited bytes go through Unmarshal (metered), Read over a seeded read plan, hex Decode and Scan. Phase 'trunc' decodes every proper prefix of one encoding. A run is non-trivial when at least one edit changed the bytes (or, in 'trunc', the encoding is non-empty) and the decoders were actually called. Streams whose count field exceeds what the remaining input can back while that level's limit is disabled are generated but not executed (the property's own carve-out) and are counted as skipped.",
		StateMeasure: "distinct (codec, limit vector, shadow-parser class, too-large level, edit-kind multiset, root type) tuples",
		Assumptions: []string{
			"the shadow parser in sim/refwkb classifies edited bytes correctly as ok / too-large / error / unspecified / unbacked",
			"streams whose meaning the format documents leave open (a member carrying its own SRID, stray high bits in an EWKB type word) are only held to totality, well-formedness, canonical re-encoding and the allocation bound",
			"allocation is measured as the runtime.MemStats.TotalAlloc delta around Unmarshal on the worker's only goroutine; the bound is 64*len(input) + 2*(64*L1 + 8*L2 + 8*L3) + 8 KiB over the enabled levels",
			"explores the fault space around valid encodings, not arbitrary byte strings far from any valid encoding",
		},
		RealComponents: []string{"encoding/wkb", "encoding/ewkb", "encoding/wkbcommon (MaxGeometryElements)", "wkbhex/ewkbhex", "SQL Scan wrappers", "go-geom constructors and Push", "Go runtime allocator (metered)"},
		StubComponents: []string{"the storage/transport medium (simio.Apply edit list)", "io.Reader (simio.Reader read plan)", "process configuration (limit vector set per run, restored after)"},
		FaultKinds:     []string{"edit:truncate", "edit:flip", "edit:set", "edit:u32-count", "edit:u32-type", "edit:order-byte", "edit:srid-flag", "edit:dup", "edit:drop", "edit:insert", "trunc-prefix"},
		Probes:         []string{"class:ok", "class:too-large", "class:error", "class:unspecified", "probe:too-large-level-1", "probe:too-large-level-2", "probe:too-large-level-3", "probe:count==limit", "probe:forged-count-inside-collection", "probe:child-type-mismatch", "probe:child-layout-mismatch", "probe:accepted-after-edit", "probe:limits-disabled", "probe:alloc-metered", "probe:alloc>16x-input"},
	}
}

func (prop) Decode(raw []byte) (any, error) {
	var s Scenario
	d := json.NewDecoder(bytes.NewReader(raw))
	d.DisallowUnknownFields()
	if err := d.Decode(&s); err != nil {
		return nil, err
	}
	if s.Mode != "edit" && s.Mode != "trunc" {
		return nil, fmt.Errorf("bad mode")
	}
	if s.Geom == nil {
		return nil, fmt.Errorf("no geometry")
	}
	if s.Limits[0] != 0 {
		return nil, fmt.Errorf("limits[0] is unused")
	}
	for _, l := range s.Limits[1:] {
		if l < -1 || l > 100000 {
			return nil, fmt.Errorf("bad limit")
		}
	}
	if err := c03.ValidGeom(s.Geom); err != nil {
		return nil, err
	}
	for _, e := range s.Edits {
		switch e.K {
		case "truncate", "flip", "set", "u32", "drop", "dup", "insert":
		default:
			return nil, fmt.Errorf("bad edit %q", e.K)
		}
		if e.Off < 0 || e.N < 0 || e.N > 1<<16 || len(e.Hex) > 1<<14 {
			return nil, fmt.Errorf("bad edit")
		}
	}
	if s.RCap != "" && s.RCap != "byte" {
		return nil, fmt.Errorf("bad reader capabilities")
	}
	for _, e := range s.HexEdits {
		if (e.K != "truncate" && e.K != "set") || e.Off < 0 || e.V > 255 {
			return nil, fmt.Errorf("bad hex edit")
		}
	}
	return &s, nil
}

var limitChoices = []int{-1, -1, 0, 1, 2, 3, 8, 64, 1000}

func (prop) Generate(r *prng.Rand, phase string) any {
	s := &Scenario{Mode: phase, Read: simio.NoFault()}
	s.Codec = refwkb.Codec{EWKB: r.Chance(0.5), BE: r.Chance(0.5)}
	if !s.Codec.EWKB {
		s.Codec.NaN = r.Chance(0.6)
	}
	switch r.Intn(4) {
	case 0:
		s.Limits = refwkb.NoLimits
	default:
		for i := 1; i <= 3; i++ {
			s.Limits[i] = limitChoices[r.Intn(len(limitChoices))]
		}
	}
	cfg := mgeom.SwarmCfg(r, []int{1, 2, 3, 4})
	cfg.FloatMode = r.Intn(2)
	if cfg.MaxCoords > 8 && cfg.ExactCoords == 0 {
		cfg.MaxCoords = 8
	}
	if phase == "trunc" {
		// every cut position is enumerated: keep the messages short
		cfg.ExactCoords, cfg.ExactParts = 0, 0
		if cfg.MaxCoords > 4 {
			cfg.MaxCoords = 4
		}
		if cfg.MaxParts > 3 {
			cfg.MaxParts = 3
		}
	}
	// keep the valid encoding within the limits most of the time, so that
	// the edits (not the base geometry) decide the class
	var ref []byte
	var fields []refwkb.Field
	for tries := 0; ; tries++ {
		g := cfg.GenAny(r)
		if phase == "edit" && tries == 0 && r.Chance(0.003) {
			g = cfg.Big(r, 1+r.Intn(4))
		}
		if !s.Codec.EWKB {
			g.S = 0
		}
		stripMemberSRID(g)
		var err error
		ref, fields, err = refwkb.Encode(s.Codec, g)
		if err != nil {
			if tries > 50 {
				s.Codec.NaN = true
			}
			continue
		}
		s.Geom = g
		break
	}
	if phase == "trunc" {
		return s
	}
	s.Read = c03.GenReadPlan(r, len(ref)+1)
	s.Read.ErrAt, s.Read.TruncAt = -1, -1
	s.RCap = []string{"", "", "byte"}[r.Intn(3)]
	// a second stored encoding to splice from
	other, _, oerr := refwkb.Encode(s.Codec, withoutEmptyPoints(cfg.GenAny(r), s.Codec))
	ranges := refwkb.SubRanges(fields, len(ref))
	var counts, types, orders []refwkb.Field
	for _, f := range fields {
		switch f.Class {
		case refwkb.FCount:
			counts = append(counts, f)
		case refwkb.FType:
			types = append(types, f)
		case refwkb.FOrder:
			orders = append(orders, f)
		}
	}
	u32at := func(off int) uint32 {
		if s.Codec.BE {
			return uint32(ref[off])<<24 | uint32(ref[off+1])<<16 | uint32(ref[off+2])<<8 | uint32(ref[off+3])
		}
		return uint32(ref[off+3])<<24 | uint32(ref[off+2])<<16 | uint32(ref[off+1])<<8 | uint32(ref[off])
	}
	nedits := r.Pick(0, 6, 3, 1)
	for i := 0; i < nedits; i++ {
		switch r.Pick(3, 3, 2, 8, 4, 1, 1, 2, 2, 2, 2) {
		case 10: // everything after some field boundary is replaced by arbitrary bytes
			f := fields[r.Intn(len(fields))]
			k := f.Off
			if r.Chance(0.7) {
				k = f.Off + f.Len
			}
			tail := make([]byte, r.Range(1, 48))
			for j := range tail {
				tail[j] = byte(r.Intn(256))
				if r.Chance(0.5) {
					tail[j] = byte(r.Intn(4)) // small numbers make plausible headers and counts
				}
			}
			s.Edits = append(s.Edits, simio.Edit{K: "truncate", Off: k}, simio.Edit{K: "insert", Off: k, Hex: hex.EncodeToString(tail), N: 1})
		case 0:
			s.Edits = append(s.Edits, simio.Edit{K: "truncate", Off: r.Intn(len(ref) + 1)})
		case 1:
			s.Edits = append(s.Edits, simio.Edit{K: "flip", Off: r.Intn(len(ref)), N: r.Intn(8)})
		case 2:
			s.Edits = append(s.Edits, simio.Edit{K: "set", Off: r.Intn(len(ref)), V: uint32(r.Intn(256))})
		case 3: // forge a count
			if len(counts) == 0 {
				continue
			}
			f := counts[r.Intn(len(counts))]
			if r.Chance(0.5) { // prefer deep ones
				f = counts[len(counts)-1-r.Intn((len(counts)+1)/2)]
			}
			actual := u32at(f.Off)
			lim := -1
			if f.Level >= 1 && f.Level <= 3 {
				lim = s.Limits[f.Level]
			}
			var vals []uint32
			vals = append(vals, 0, 1, actual+1, actual+2)
			if actual > 0 {
				vals = append(vals, actual-1)
			}
			if lim >= 0 || f.Level == 0 {
				vals = append(vals, 1<<16, 1<<20, 1<<22, 1<<31-1, 1<<31, 1<<32-1, 1<<24+1)
			}
			if lim >= 0 {
				vals = append(vals, uint32(lim), uint32(lim)+1, uint32(lim)+1, uint32(2*lim), uint32(lim+3))
				if lim > 0 {
					vals = append(vals, uint32(lim-1))
				}
			}
			s.Edits = append(s.Edits, simio.Edit{K: "u32", Off: f.Off, V: vals[r.Intn(len(vals))], BE: s.Codec.BE, N: 1})
		case 4: // forge a type word
			f := types[r.Intn(len(types))]
			cur := u32at(f.Off)
			var v uint32
			if s.Codec.EWKB {
				switch r.Intn(6) {
				case 0:
					v = cur&0xe0000000 | uint32([]int{0, 8, 15, 16, 17, 99, 1000}[r.Intn(7)])
				case 1:
					v = cur | []uint32{0x10000000, 0x08000000, 0x00010000}[r.Intn(3)]
				case 2:
					v = cur&0xe0000000 | uint32(r.Range(1, 7)) // another valid type
				case 3:
					v = cur ^ []uint32{0x80000000, 0x40000000, 0xc0000000}[r.Intn(3)] // another dimension
				case 4:
					v = cur ^ 0x20000000 // SRID flag
				default:
					v = uint32(r.Uint64())
				}
			} else {
				switch r.Intn(5) {
				case 0:
					v = cur/1000*1000 + uint32([]int{0, 8, 15, 16, 17, 99, 999}[r.Intn(7)])
				case 1:
					v = cur%1000 + uint32([]int{4000, 5000, 7000, 1000000}[r.Intn(4)])
				case 2:
					v = cur/1000*1000 + uint32(r.Range(1, 7))
				case 3:
					v = cur%1000 + uint32(1000*r.Intn(4))
				default:
					v = uint32(r.Uint64())
				}
			}
			s.Edits = append(s.Edits, simio.Edit{K: "u32", Off: f.Off, V: v, BE: s.Codec.BE})
		case 5:
			f := orders[r.Intn(len(orders))]
			s.Edits = append(s.Edits, simio.Edit{K: "set", Off: f.Off, V: uint32(r.Range(0, 255)), N: 2})
		case 6:
			if s.Codec.EWKB {
				f := types[r.Intn(len(types))]
				s.Edits = append(s.Edits, simio.Edit{K: "u32", Off: f.Off, V: u32at(f.Off) ^ 0x20000000, BE: s.Codec.BE, N: 3})
			}
		case 7:
			if len(ranges) > 1 {
				rg := ranges[1+r.Intn(len(ranges)-1)]
				s.Edits = append(s.Edits, simio.Edit{K: "dup", Off: rg.Start, N: rg.End - rg.Start})
			}
		case 8:
			if len(ranges) > 1 {
				rg := ranges[1+r.Intn(len(ranges)-1)]
				s.Edits = append(s.Edits, simio.Edit{K: "drop", Off: rg.Start, N: rg.End - rg.Start})
			}
		case 9: // replace a sub-geometry by another stored encoding
			if len(ranges) > 1 && oerr == nil && len(other) < 4000 {
				rg := ranges[1+r.Intn(len(ranges)-1)]
				s.Edits = append(s.Edits, simio.Edit{K: "drop", Off: rg.Start, N: rg.End - rg.Start}, simio.Edit{K: "insert", Off: rg.Start, Hex: hex.EncodeToString(other)})
			}
		}
	}
	if r.Chance(0.15) {
		for i := r.Range(1, 2); i > 0; i-- {
			e := simio.Edit{Off: r.Intn(2*len(ref) + 2)}
			if r.Chance(0.4) {
				e.K = "truncate"
			} else {
				e.K = "set"
				e.V = uint32([]byte{'g', 'G', 'x', ' ', '-', 0, 0xff, 'Z', '\n', '0', 'f'}[r.Intn(11)])
			}
			s.HexEdits = append(s.HexEdits, e)
		}
	}
	return s
}

func stripMemberSRID(m *mgeom.Geom) {
	for _, c := range m.G {
		c.S = 0
		stripMemberSRID(c)
	}
}

func withoutEmptyPoints(m *mgeom.Geom, c refwkb.Codec) *mgeom.Geom {
	if !c.EWKB {
		m.S = 0
	}
	stripMemberSRID(m)
	return m
}

func editKind(e simio.Edit) string {
	switch e.K {
	case "u32":
		switch e.N {
		case 1:
			return "edit:u32-count"
		case 3:
			return "edit:srid-flag"
		}
		return "edit:u32-type"
	case "set":
		if e.N == 2 {
			return "edit:order-byte"
		}
	}
	return "edit:" + e.K
}

func allocBound(n int, lim refwkb.Limits) uint64 {
	b := uint64(64*n) + 8192
	if lim[1] >= 0 {
		b += 2 * 64 * uint64(lim[1])
	}
	if lim[2] >= 0 {
		b += 2 * 8 * uint64(lim[2])
	}
	if lim[3] >= 0 {
		b += 2 * 8 * uint64(lim[3])
	}
	return b
}

func short(b []byte) string {
	if len(b) > 160 {
		return hex.EncodeToString(b[:160]) + fmt.Sprintf("...(%d bytes)", len(b))
	}
	return hex.EncodeToString(b)
}

// outcome checks one decoder result against the shadow verdict.
func outcome(res *core.Result, what string, v refwkb.Verdict, lib wkbadapt.Lib, data []byte, g geom.T, err error, consumed int, wantKind string) bool {
	fail := func(class, format string, args ...any) bool {
		res.Fail(class, class+":"+what+":"+v.Class, "%s of %s bytes %s (shadow parser: %s %s): %s", what, lib.C, short(data), v.Class, v.Why, fmt.Sprintf(format, args...))
		return false
	}
	isNil := g == nil
	if !isNil && err != nil {
		return fail("geometry-and-error", "returned both a geometry and error %v", err)
	}
	if isNil && err == nil {
		return fail("nil-nil", "returned neither a geometry nor an error")
	}
	var obs *mgeom.Geom
	if !isNil {
		var oerr error
		obs, oerr = mgeom.Observe(g)
		if oerr != nil {
			return fail("ill-formed", "returned an ill-formed geometry: %v", oerr)
		}
	}
	switch v.Class {
	case refwkb.COK:
		if wantKind != "" && wantKind != v.Model.T {
			if err == nil {
				return fail("wrong-wrapper-accepted", "a %s wrapper accepted a %s", wantKind, v.Model.T)
			}
			return true
		}
		if err != nil {
			return fail("over-rejection", "rejected a well-formed encoding: %v; expected %s", err, v.Model)
		}
		if d := mgeom.Diff(obs, v.Model); d != "" {
			return fail("decoded-differs", "observed %s, expected %s: %s", obs, v.Model, d)
		}
		if consumed >= 0 && consumed != v.Consumed {
			return fail("consumed-wrong", "consumed %d bytes, the geometry ends at %d", consumed, v.Consumed)
		}
	case refwkb.CTooLarge:
		if err == nil {
			return fail("too-large-accepted", "accepted a level-%d count above its limit %v: %s", v.Level, lib.C, obs)
		}
		if _, ok := wkbadapt.IsTooLarge(err); !ok {
			return fail("too-large-wrong-error", "a level-%d count exceeds its limit but the error is %T %q, want a geometry-too-large error", v.Level, err, err)
		}
	case refwkb.CError:
		if err == nil {
			return fail("malformed-accepted", "accepted malformed input as %s", obs)
		}
	}
	// canonical: an accepted geometry re-encodes and decodes to itself
	if !isNil {
		var b2 []byte
		var merr error
		if p := core.Guard(func() { b2, merr = lib.Marshal(g) }); p != "" {
			return fail("panic", "re-encoding the accepted geometry panicked: %s", p)
		}
		if merr != nil {
			// WKB default mode cannot write an empty point; decoding in that
			// mode never produces one, so any failure here is a finding
			return fail("not-canonical", "the accepted geometry %s cannot be re-encoded: %v", obs, merr)
		}
		var g2 geom.T
		var uerr error
		if p := core.Guard(func() { g2, uerr = lib.Unmarshal(b2) }); p != "" {
			return fail("panic", "decoding the re-encoded geometry panicked: %s", p)
		}
		if uerr != nil {
			// the re-encoding may exceed the configured limits only if the
			// accepted geometry itself did, which the shadow parser excludes
			return fail("not-canonical", "re-encoding %x of the accepted geometry does not decode: %v", b2, uerr)
		}
		obs2, oerr := mgeom.Observe(g2)
		if oerr != nil {
			return fail("not-canonical", "the re-decoded geometry is ill-formed: %v", oerr)
		}
		if d := mgeom.Diff(obs, obs2); d != "" {
			return fail("not-canonical", "decode(encode(g)) = %s differs from g = %s: %s", obs2, obs, d)
		}
		// well-formed for the whole public API, not only for the raw accessors:
		// the accepted geometry answers like a freshly built one of its value
		if d := mgeom.TwinDiff(g); d != "" {
			return fail("ill-formed", "the accepted geometry is inconsistent: %s", d)
		}
		if v.Class != refwkb.COK {
			res.Count("probe:accepted-after-edit", 1)
		}
	}
	return true
}

func (prop) Execute(scAny any, phase string, log *core.Log) core.Result {
	s := scAny.(*Scenario)
	var res core.Result
	m := s.Geom.Clone().Norm()
	ref, _, err := refwkb.Encode(s.Codec, m)
	if err != nil {
		res.Invalid = true
		return res
	}
	lib := wkbadapt.Lib{C: s.Codec}
	defer wkbadapt.SetLimits(s.Limits)()
	if s.Limits == refwkb.NoLimits {
		res.Count("probe:limits-disabled", 1)
	}
	if s.Mode == "trunc" {
		for k := 0; k < len(ref); k++ {
			data := ref[:k]
			v := refwkb.Decode(s.Codec, s.Limits, data)
			if v.Class == refwkb.CUnbacked {
				res.Count("trunc-prefix-skipped-unbacked", 1)
				continue
			}
			if v.Class == refwkb.COK {
				panic(fmt.Sprintf("shadow parser accepts the proper prefix %x of %x", data, ref))
			}
			var g geom.T
			var derr error
			if p := core.Guard(func() { g, derr = lib.Unmarshal(data) }); p != "" {
				res.Fail("panic", "panic:unmarshal:"+core.PanicSite(p), "Unmarshal panicked on the %d-byte prefix %s of the encoding of %s: %s", k, short(data), m, p)
				return res
			}
			res.Steps++
			res.Count("trunc-prefix", 1)
			log.Addf("prefix %d class %s err=%v", k, v.Class, derr)
			if !outcome(&res, "Unmarshal", v, lib, data, g, derr, -1, "") {
				return res
			}
		}
		res.Nontrivial = len(ref) > 0
		res.StateKey = fmt.Sprintf("trunc|%s|%v|%s", s.Codec, s.Limits, m.T)
		return res
	}
	data, fired := simio.Apply(ref, s.Edits)
	var kinds []string
	for _, e := range s.Edits {
		res.Count(editKind(e), 1)
		kinds = append(kinds, editKind(e))
	}
	v := refwkb.Decode(s.Codec, s.Limits, data)
	if v.Class == refwkb.CUnbacked {
		res.Skipped = true
		res.StateKey = "unbacked-count-with-its-limit-disabled"
		return res
	}
	res.Count("class:"+v.Class, 1)
	if v.Class == refwkb.CTooLarge {
		res.Count(fmt.Sprintf("probe:too-large-level-%d", v.Level), 1)
	}
	for _, e := range s.Edits {
		if e.K == "u32" && e.N == 1 {
			for l := 1; l <= 3; l++ {
				if s.Limits[l] >= 0 && int64(e.V) == int64(s.Limits[l]) {
					res.Count("probe:count==limit", 1)
				}
			}
			if m.T == mgeom.GC {
				res.Count("probe:forged-count-inside-collection", 1)
			}
		}
	}
	if strings.Contains(v.Why, "is a ") && v.Class == refwkb.CError {
		res.Count("probe:child-type-mismatch", 1)
	}
	if strings.Contains(v.Why, "has layout") {
		res.Count("probe:child-layout-mismatch", 1)
	}
	log.Addf("%s limits %v: %d -> %d bytes, %d edits fired, shadow %s (%s)", s.Codec, s.Limits, len(ref), len(data), fired, v.Class, v.Why)

	// 1. Unmarshal, metered
	var g geom.T
	var derr error
	var ms0, ms1 runtime.MemStats
	in := append([]byte(nil), data...)
	runtime.ReadMemStats(&ms0)
	p := core.Guard(func() {
		g, derr = lib.Unmarshal(in)
		if derr != nil {
			_ = derr.Error() // the error a caller gets can be rendered
		}
	})
	runtime.ReadMemStats(&ms1)
	if p != "" {
		res.Fail("panic", "panic:unmarshal:"+core.PanicSite(p), "Unmarshal panicked on %s (shadow %s %s): %s", short(data), v.Class, v.Why, p)
		return res
	}
	res.Steps++
	alloc := ms1.TotalAlloc - ms0.TotalAlloc
	if bound := allocBound(len(data), s.Limits); alloc > bound && alloc-bound <= 64<<10 && p == "" {
		// TotalAlloc is process-wide: now and then the runtime itself
		// allocates in the background (it creates its GC workers when a
		// collection starts: some 16 KB once). Only an excess small enough to
		// be that is looked at again: a decode is deterministic, so what it
		// allocates it allocates again; the smaller number counts. (An excess
		// of more than 64 KiB is reported at once: a buffer that is allocated
		// once and pooled would otherwise hide behind the second measurement.)
		in2 := append([]byte(nil), data...)
		runtime.ReadMemStats(&ms0)
		core.Guard(func() { _, _ = lib.Unmarshal(in2) })
		runtime.ReadMemStats(&ms1)
		if again := ms1.TotalAlloc - ms0.TotalAlloc; again < alloc {
			res.Count("probe:alloc-remeasured-lower", 1)
			alloc = again
		}
	}
	res.Count("probe:alloc-metered", 1)
	if alloc > uint64(16*len(data)+2048) {
		res.Count("probe:alloc>16x-input", 1)
	}
	log.Addf("Unmarshal err=%v", derr)
	if bound := allocBound(len(data), s.Limits); alloc > bound {
		res.Fail("allocation-unbounded", "allocation-unbounded:"+v.Class, "Unmarshal of %d bytes %s under limits %v allocated %d bytes, more than the bound %d (= 64*len + limits term + 8 KiB); shadow parser: %s %s; result err=%v", len(data), short(data), s.Limits, alloc, bound, v.Class, v.Why, derr)
		return res
	}
	if !outcome(&res, "Unmarshal", v, lib, data, g, derr, -1, "") {
		return res
	}
	if !bytes.Equal(in, data) {
		res.Fail("input-modified", "input-modified:Unmarshal", "Unmarshal changed its input bytes from %s to %s", short(data), short(in))
		return res
	}
	if g != nil {
		// the input buffer is the caller's again: reused, it must not reach
		// into the geometry that was returned
		before, _ := mgeom.Observe(g)
		for i := range in {
			in[i] ^= 0x5a
		}
		after, aerr := mgeom.Observe(g)
		if before != nil && (aerr != nil || mgeom.Diff(before, after) != "") {
			res.Fail("result-aliases-input", "result-aliases-input:Unmarshal", "the geometry Unmarshal returned for %s changed when the caller reused the input buffer: was %s, now %s (%v)", short(data), before, after, aerr)
			return res
		}
	}
	// 2. Read through a read plan
	rd := simio.NewReader(data, s.Read)
	rd.MaxCalls = len(data) + 64 + 8*len(s.Read.Dirs)
	if p := core.Guard(func() { g, derr = lib.Read(rd.With(s.RCap)) }); p != "" {
		if rd.Runaway {
			res.Fail("runaway-reader", "runaway-reader", "Read went on calling the reader (%d calls for %d bytes) although it kept refusing", len(rd.Calls), len(data))
			return res
		}
		res.Fail("panic", "panic:read:"+core.PanicSite(p), "Read panicked on %s: %s", short(data), p)
		return res
	}
	res.Steps += len(rd.Calls)
	log.Addf("Read calls=%d pos=%d err=%v", len(rd.Calls), rd.Pos(), derr)
	if rd.Runaway {
		res.Fail("runaway-reader", "runaway-reader", "Read called the reader %d times for %d bytes", len(rd.Calls), len(data))
		return res
	}
	if !outcome(&res, "Read", v, lib, data, g, derr, rd.Pos(), "") {
		return res
	}
	// 3. hex
	hx := hex.EncodeToString(data)
	if p := core.Guard(func() { g, derr = lib.HexDecode(hx) }); p != "" {
		res.Fail("panic", "panic:hexdecode:"+core.PanicSite(p), "hex Decode panicked on %s: %s", short(data), p)
		return res
	}
	res.Steps++
	if !outcome(&res, "hex Decode", v, lib, data, g, derr, -1, "") {
		return res
	}
	if len(s.HexEdits) > 0 {
		// the hex text itself arrives corrupted
		hb, hfired := simio.Apply([]byte(hx), s.HexEdits)
		res.Count("edit:hex-text", int64(hfired))
		hv := refwkb.Verdict{Class: refwkb.CUnspecified, Why: "corrupted hex text"}
		hdata := hb
		if raw, herr := hex.DecodeString(string(hb)); herr == nil {
			// still hex: it stands for these bytes
			hv = refwkb.Decode(s.Codec, s.Limits, raw)
			hdata = raw
		} else {
			res.Count("probe:invalid-hex-text", 1)
		}
		if hv.Class != refwkb.CUnbacked {
			if p := core.Guard(func() { g, derr = lib.HexDecode(string(hb)) }); p != "" {
				res.Fail("panic", "panic:hexdecode:"+core.PanicSite(p), "hex Decode panicked on the text %q: %s", short(hb), p)
				return res
			}
			res.Steps++
			if !outcome(&res, "hex Decode (corrupted text)", hv, lib, hdata, g, derr, -1, "") {
				return res
			}
		}
	}
	// 4. SQL scanners
	if lib.HasSQL() && len(data) > 0 {
		kindsToTry := []string{m.T}
		if !s.Codec.EWKB {
			kindsToTry = append(kindsToTry, "Geom")
		}
		for _, kind := range kindsToTry {
			if p := core.Guard(func() { g, derr = lib.Scan(kind, append([]byte(nil), data...)) }); p != "" {
				res.Fail("panic", "panic:scan:"+core.PanicSite(p), "Scan into a %s wrapper panicked on %s: %s", kind, short(data), p)
				return res
			}
			res.Steps++
			want := kind
			if kind == "Geom" {
				want = ""
			}
			if g != nil && want != "" {
				if obs, oerr := mgeom.Observe(g); oerr == nil && obs.T != want {
					res.Fail("wrong-wrapper-accepted", "wrong-wrapper-accepted:"+kind, "a %s wrapper now holds a %s", kind, obs.T)
					return res
				}
			}
			if v.Class == refwkb.COK && want != "" && v.Model.T != want {
				if derr == nil {
					res.Fail("wrong-wrapper-accepted", "wrong-wrapper-accepted:"+kind, "a %s wrapper accepted the encoding of a %s", kind, v.Model.T)
					return res
				}
				continue
			}
			if v.Class == refwkb.CUnspecified && derr != nil {
				continue
			}
			if !outcome(&res, "Scan("+kind+")", v, lib, data, g, derr, -1, want) {
				return res
			}
		}
	}
	res.Nontrivial = fired > 0
	res.StateKey = fmt.Sprintf("%s|%v|%s|%d|%s|%s", s.Codec, s.Limits, v.Class, v.Level, strings.Join(kinds, ","), m.T)
	return res
}
