// Package c19 simulates the IGC record stream:
//
//	track model --igc.Encoder--> simio.Writer --medium (line/byte faults)--> simio.Reader --igc.Read
//
// Clean pipes must return every track to format resolution however the reader
// splits and stalls; faulty pipes (and hand-composed record streams with forged
// I records, over-long and truncated B records) must leave the decoder total.
package c19

import (
	"bytes"
	"encoding/json"
	"fmt"
	"errors"
	"math"
	"regexp"
	"strings"
	"time"

	geom "github.com/twpayne/go-geom"
	"github.com/twpayne/go-geom/encoding/igc"

	"verif/sim/core"
	"verif/sim/mgeom"
	"verif/sim/prng"
	"verif/sim/simio"
)

// Fix is one model fix of a track.
type Fix struct {
	Lon mgeom.F `json:"lon"`
	Lat mgeom.F `json:"lat"`
	Alt mgeom.F `json:"alt"`
	T   mgeom.F `json:"t"` // seconds since 1970-01-01T00:00:00Z, possibly fractional
}

// LineEdit is a record-level fault of the medium.
type LineEdit struct {
	K string `json:"k"` // drop, dup, swap, tear, long
	I int    `json:"i"`
	J int    `json:"j,omitempty"`
}

// Scenario is one closed C19 scenario.
type Scenario struct {
	Mode   string `json:"mode"` // clean | faulty
	A      string `json:"a"`
	Layout int    `json:"layout"` // 4 (XYZM), 5 (what igc.Read returns) or 6
	// Extra: value of the ordinates beyond the fourth of every fix (layouts 5
	// and 6): they are not part of the format and must not matter.
	Extra mgeom.F `json:"extra,omitempty"`
	Fixes  []Fix  `json:"fixes"`
	// Lines, when non-empty, is a hand-composed record stream used instead of
	// the encoder's output (faulty mode only).
	Lines     []string       `json:"lines,omitempty"`
	EOL       string         `json:"eol,omitempty"` // "" = "\n", "crlf"
	LineEdits []LineEdit     `json:"line_edits,omitempty"`
	Edits     []simio.Edit   `json:"edits,omitempty"`
	Read      simio.ReadPlan `json:"read"`
	WriteFail int            `json:"write_fail"` // >= 0: the encoder's writer fails there (reach only)
	// TZ is the process-wide local time zone (time.Local) during the run, in
	// seconds east of UTC; 0 = UTC. Timestamps are UTC by the format whatever
	// the zone of the process.
	TZ int `json:"tz,omitempty"`
	// Reuse: one igc.Encoder value writes the whole track and then every
	// prefix track, each into its own output (clean mode).
	Reuse bool `json:"reuse,omitempty"`
	// Pipe: at the end of a clean run one real bytes.Buffer carries two logs in
	// turn (written, read back, written, read back).
	Pipe bool `json:"pipe,omitempty"`
	// Prelude (clean mode): a hand-composed record stream (I records that
	// extend the B record, odd headers, garbage) decoded before the track is,
	// in the same process: a decode starts from nothing whatever came before.
	Prelude []string `json:"prelude,omitempty"`
	// CleanWriteFail >= 0 (clean mode): the encoder's writer fails at that
	// offset once (transient) or for good; if Encode nevertheless reports
	// success, what the writer accepted must be the whole track.
	CleanWriteFail int  `json:"clean_write_fail,omitempty"`
	CleanWFSticky  bool `json:"clean_wf_sticky,omitempty"`
}

// switchWriter lets one Encoder write successive tracks into separate outputs.
type switchWriter struct{ w *simio.Writer }

func (s *switchWriter) Write(p []byte) (int, error) { return s.w.Write(p) }

// session is the encoder state shared by the checkTrack calls of one run.
type session struct {
	enc *igc.Encoder
	sw  *switchWriter
}

func setZone(tz int) func() {
	old := time.Local
	if tz != 0 {
		time.Local = time.FixedZone("SIM", tz)
	} else {
		time.Local = time.UTC
	}
	return func() { time.Local = old }
}

type prop struct{}

func init() { core.Register(prop{}) }

func (prop) ID() string { return "C19" }

func (prop) Plan(tier string) []core.Phase {
	if tier == "thorough" {
		return []core.Phase{{Name: "clean", Runs: 30000000}, {Name: "faulty", Runs: 30000000}}
	}
	return []core.Phase{{Name: "clean", Runs: 600000}, {Name: "faulty", Runs: 600000}}
}

func (prop) Describe() core.Description {
	return core.Description{
		Level: "exploration",
		Rule: "Phase 'clean': a generated track (0-200 fixes; longitude in [-180,180] and latitude in [-90,90] biased to 0, the poles, the antimeridian and values within an ulp of k/60000; altitude biased to 0, 10000 and beyond; non-decreasing whole or fractional seconds from 1970-01-01 to 2069-12-31 biased to midnight, month, year and century boundaries and multi-day gaps) is written by igc.Encoder with an A record into a simulated writer and read back through a seeded read plan (chunk sizes, bounded stalls, data+EOF); every prefix of short tracks is checked the same way, in 40% of the runs by the same Encoder value writing one track after another into separate outputs; in 40% of the runs the process-wide local time zone (time.Local) is a seeded non-UTC zone. Phase 'faulty': the encoder's output or a hand-composed record stream (A/H/I/B/other records, forged I-record tables, short/long/garbled B records, BOM/XOFF/noise before A, CRLF) is corrupted on the medium (drop/dup/swap/tear lines, >64KiB lines, truncation, bit flips, byte sets) and read through a plan that may also fail or stall forever. A run is non-trivial when a read directive or medium edit actually fired on a stream holding at least one B record.",
		StateMeasure: "distinct (mode, number of fixes bucket, day-boundary crossings, record-letter sequence prefix, fault kinds fired) tuples",
		Assumptions: []string{
			"format resolution is taken from the property statement: 1/60000 degree, whole seconds, integer altitude clamped to 0..10000",
			"the decoded timestamp is compared after rounding to the nearest second (the decoder's float64 division by 1e9 is not exact above 2^53 ns)",
			"in faulty mode only totality is demanded; nothing is required of which records survive",
		},
		RealComponents: []string{"encoding/igc (Encoder.Encode, Read and its parser)", "go-geom LineString", "stdlib bufio.Scanner, fmt, regexp, time"},
		StubComponents: []string{"io.Writer under the encoder (simio.Writer)", "the medium between writer and reader (line and byte edits)", "io.Reader under the decoder (simio.Reader: chunking, stalls incl. unbounded, data+EOF, error at offset, truncation)"},
		FaultKinds:     []string{"read-split", "read-stall", "read-data+eof", "read-error", "read-truncate", "stall-forever", "line-drop", "line-dup", "line-swap", "line-tear", "line-long", "line-garble", "byte-edit", "write-fail"},
		Probes:         []string{"probe:year<2000", "probe:year-rollover", "probe:day-rollover", "probe:lat==+-90", "probe:lon==+-180", "probe:alt-clamped", "probe:fractional-second", "probe:I-record", "probe:I-record-extends-B", "probe:B-shorter-than-announced", "probe:line>64KiB", "probe:torn-inside-B", "probe:noise-before-A", "probe:record-errors-returned", "probe:record-errors>16", "probe:>=3-broken-B-records", "probe:prefix-tracks", "probe:encoder-reused", "probe:one-buffer-carries-two-logs", "probe:local-zone-not-utc", "probe:extra-ordinates-nonzero", "probe:first-result-rechecked-after-later-decodes", "probe:headers-checked", "probe:decode-after-an-unrelated-stream", "probe:consecutive-fixes-with-identical-records"},
	}
}

func (prop) Decode(raw []byte) (any, error) {
	var s Scenario
	d := json.NewDecoder(bytes.NewReader(raw))
	d.DisallowUnknownFields()
	if err := d.Decode(&s); err != nil {
		return nil, err
	}
	if s.Mode != "clean" && s.Mode != "faulty" {
		return nil, fmt.Errorf("bad mode")
	}
	if s.Layout < 4 || s.Layout > 6 || math.IsNaN(float64(s.Extra)) {
		return nil, fmt.Errorf("bad layout")
	}
	if !validA(s.A) {
		return nil, fmt.Errorf("bad A record text")
	}
	prev := -1.0
	for _, f := range s.Fixes {
		lon, lat, alt, t := float64(f.Lon), float64(f.Lat), float64(f.Alt), float64(f.T)
		if !(lon >= -180 && lon <= 180) || !(lat >= -90 && lat <= 90) || !(alt >= -1e6 && alt <= 1e6) {
			return nil, fmt.Errorf("fix out of range")
		}
		if !(t >= 0 && t < maxT+1) || math.Floor(t) < math.Floor(prev) {
			return nil, fmt.Errorf("bad timestamp")
		}
		prev = t
	}
	if s.TZ < -14*3600 || s.TZ > 14*3600 {
		return nil, fmt.Errorf("bad time zone")
	}
	if (s.Reuse || s.Pipe || len(s.Prelude) > 0 || s.CleanWriteFail != 0) && s.Mode != "clean" {
		return nil, fmt.Errorf("clean-mode settings outside clean mode")
	}
	if s.CleanWriteFail < 0 {
		return nil, fmt.Errorf("bad write failure offset")
	}
	if s.Mode == "clean" {
		if len(s.Lines) > 0 || len(s.LineEdits) > 0 || len(s.Edits) > 0 || s.WriteFail >= 0 {
			return nil, fmt.Errorf("faults in clean mode")
		}
		if len(s.Prelude) > 40 {
			return nil, fmt.Errorf("prelude too long")
		}
		if s.Read.ErrAt >= 0 || s.Read.TruncAt >= 0 || s.Read.StallForever {
			return nil, fmt.Errorf("reader faults in clean mode")
		}
	}
	return &s, nil
}

func validA(a string) bool {
	if len(a) < 1 || len(a) > 24 {
		return false
	}
	for _, c := range a {
		if !(c >= 'A' && c <= 'Z' || c >= '0' && c <= '9') {
			return false
		}
	}
	return true
}

// 2069-12-31T23:59:59Z
const maxT = 3155759999

var dayStarts = []int64{
	0,          // 1970-01-01
	86400 * 364, // 1970-12-31
	504921600,  // 1986-01-01
	946684800 - 86400, // 1999-12-31
	946684800,  // 2000-01-01
	951782400,  // 2000-02-29
	1709164800, // 2024-02-29
	2145916800, // 2038-01-01
	3124137600 - 86400, // 2068-12-30
	3124137600, // 2068-12-31 ... close to the window's end
	maxT - 86399, // 2069-12-31
}

func genAngle(r *prng.Rand, lim float64) float64 {
	switch r.Intn(10) {
	case 0:
		return 0
	case 1:
		return lim
	case 2:
		return -lim
	case 3:
		return math.Copysign(0, -1)
	case 4: // within an ulp of k/60000
		k := float64(r.Range(0, int(lim)*60000))
		v := k / 60000
		switch r.Intn(3) {
		case 0:
			v = math.Nextafter(v, 1e9)
		case 1:
			v = math.Nextafter(v, -1e9)
		}
		if r.Chance(0.5) {
			v = -v
		}
		return clampF(v, -lim, lim)
	case 5:
		return clampF(lim-r.Float()/1000, -lim, lim) * float64(1-2*r.Intn(2))
	default:
		return (r.Float()*2 - 1) * lim
	}
}

func clampF(v, lo, hi float64) float64 {
	if v < lo {
		return lo
	}
	if v > hi {
		return hi
	}
	return v
}

func genTrack(r *prng.Rand) []Fix {
	n := []int{0, 1, 2, 3, 5, 12, 40, 200}[r.Intn(8)]
	if n > 3 {
		n = r.Range(3, n)
	}
	var t float64
	switch r.Intn(3) {
	case 0:
		t = float64(dayStarts[r.Intn(len(dayStarts))] + int64([]int{0, 1, 43200, 86390, 86398, 86399}[r.Intn(6)]))
	case 1:
		t = float64(r.Uint64() % (maxT + 1))
	default:
		t = float64(dayStarts[r.Intn(len(dayStarts))] + int64(r.Intn(86400)))
	}
	if t > maxT {
		t = maxT
	}
	fixes := make([]Fix, 0, n)
	for i := 0; i < n; i++ {
		var alt float64
		switch r.Intn(8) {
		case 0:
			alt = 0
		case 1:
			alt = 10000
		case 2:
			alt = float64(r.Range(-300, 12000))
		case 3:
			alt = float64(r.Range(0, 10000)) + r.Float()
		default:
			alt = float64(r.Range(0, 10000))
		}
		tt := t
		if r.Chance(0.15) && tt < maxT {
			tt += r.Float() * 0.999
		}
		fx := Fix{Lon: mgeom.F(genAngle(r, 180)), Lat: mgeom.F(genAngle(r, 90)), Alt: mgeom.F(alt), T: mgeom.F(tt)}
		if len(fixes) > 0 && r.Chance(0.12) {
			// a logger that stands still: the same place and height as the fix
			// before (to the bit, or differing below the format's resolution),
			// in the same second or whenever the clock says
			prev := fixes[len(fixes)-1]
			fx.Lon, fx.Lat, fx.Alt = prev.Lon, prev.Lat, prev.Alt
			if r.Chance(0.3) {
				fx.Lon = mgeom.F(clampF(float64(prev.Lon)+1e-9, -180, 180))
				fx.Alt = mgeom.F(math.Trunc(float64(prev.Alt)) + r.Float()*0.9)
				if float64(fx.Alt) < 0 {
					fx.Alt = prev.Alt
				}
			}
		}
		fixes = append(fixes, fx)
		step := []int64{0, 1, 1, 2, 10, 60, 3599, 86399, 86400, 86401, 3 * 86400, 31 * 86400, 366 * 86400}[r.Intn(13)]
		if r.Chance(0.6) {
			step = int64(r.Range(0, 5))
		}
		if t+float64(step) <= maxT {
			t += float64(step)
		}
	}
	return fixes
}

func genA(r *prng.Rand) string {
	const cs = "ABCDEFGHIJKLMNOPQRSTUVWXYZ0123456789"
	n := r.Range(3, 10)
	if r.Chance(0.15) {
		n = r.Range(1, 2) // the A record text is the caller's: also a very short one
	}
	b := make([]byte, n)
	for i := range b {
		b[i] = cs[r.Intn(len(cs))]
	}
	return string(b)
}

func digits(r *prng.Rand, n int) string {
	b := make([]byte, n)
	for i := range b {
		b[i] = byte('0' + r.Intn(10))
	}
	return string(b)
}

func garble(r *prng.Rand, s string) string {
	if len(s) == 0 {
		return s
	}
	b := []byte(s)
	for k := r.Range(1, 3); k > 0; k-- {
		i := r.Intn(len(b))
		b[i] = []byte{'-', 'X', ' ', 0, 0xff, '9', 'N', 'A', ':', '\t'}[r.Intn(10)]
	}
	// The scenario is stored as JSON text, which cannot carry a lone 0xff: it is
	// written as U+FFFD, so that is what the run executes too (three bytes above
	// 0x7f; single arbitrary bytes reach the reader through the medium's edits).
	return strings.ToValidUTF8(string(b), "\ufffd")
}

// genB composes a B record of total length about want.
func genB(r *prng.Rand, want int) string {
	lat := fmt.Sprintf("%02d%05d%c", r.Range(0, 91), []int{0, 30000, 59999, 60000, 60001, 99999}[r.Intn(6)], "NSNSX"[r.Intn(5)])
	lon := fmt.Sprintf("%03d%05d%c", r.Range(0, 181), []int{0, 30000, 59999, 60000, 60001, 99999}[r.Intn(6)], "EWEWQ"[r.Intn(5)])
	tm := fmt.Sprintf("%02d%02d%02d", r.Range(0, 24), r.Range(0, 60), r.Range(0, 60))
	if r.Chance(0.1) {
		tm = digits(r, 6)
	}
	b := "B" + tm + lat + lon + "AV"[r.Intn(2):][:1] + digits(r, 5) + digits(r, 5)
	if r.Chance(0.1) {
		b = b[:25] + "-" + b[26:]
	}
	for len(b) < want {
		b += digits(r, 1)
	}
	switch r.Intn(8) {
	case 0:
		b = b[:r.Intn(len(b))+1] // too short
	case 1:
		b += digits(r, r.Range(1, 30)) // too long
	case 2:
		b = garble(r, b)
	}
	return b
}

func genI(r *prng.Rand, bLen *int) string {
	codes := []string{"LAD", "LOD", "TDS", "FXA", "ENL", "SIU", "GSP"}
	n := r.Range(0, 5)
	forged := r.Chance(0.5)
	var sb strings.Builder
	announced := n
	if forged && r.Chance(0.4) {
		announced = r.Range(0, 99)
	}
	fmt.Fprintf(&sb, "I%02d", announced)
	start := *bLen + 1
	for i := 0; i < n; i++ {
		w := r.Range(1, 3)
		s, e := start, start+w-1
		if forged {
			switch r.Intn(6) {
			case 0:
				s, e = e, s // descending
			case 1:
				s = r.Range(0, 99) // out of place
			case 2:
				e = r.Range(0, 99)
			case 3:
				s -= r.Range(1, 3) // overlapping
			}
			if s < 0 {
				s = 0
			}
			if e < 0 {
				e = 0
			}
		}
		fmt.Fprintf(&sb, "%02d%02d%s", s%100, e%100, codes[r.Intn(len(codes))])
		if s == start && e >= s {
			start = e + 1
			*bLen = e
		}
	}
	out := sb.String()
	if forged {
		switch r.Intn(5) {
		case 0:
			out = garble(r, out)
		case 1:
			out = out[:r.Intn(len(out))+1]
		case 2:
			out = "I-1" + out[3:]
		}
	}
	return out
}

func genLines(r *prng.Rand) []string {
	var lines []string
	// preamble
	switch r.Intn(6) {
	case 0:
		lines = append(lines, "\ufeffA"+genA(r))
	case 1:
		lines = append(lines, "\x13A"+genA(r))
	case 2:
		lines = append(lines, "noise", "  xx A"+genA(r))
	case 3:
		lines = append(lines, "HFDTE010101", "A"+genA(r))
	case 4:
		// no A record at all
	default:
		lines = append(lines, "A"+genA(r))
	}
	bLen := 35
	n := r.Range(0, 14)
	for i := 0; i < n; i++ {
		switch r.Pick(3, 2, 8, 1, 1, 1) {
		case 0:
			d := fmt.Sprintf("%02d%02d%02d", r.Range(0, 33), r.Range(0, 14), r.Range(0, 99))
			h := []string{"HFDTE" + d, "HFDTEDATE:" + d + ",01", "HFDTE:" + d, "HPDTE" + d, "HFDTE" + d[:r.Intn(6)], "HFPLTPILOTINCHARGE:J Doe", "HFFTYFRTYPE:X,Y", "H", "HF", "HFDTE-1-1-1"}[r.Intn(10)]
			lines = append(lines, h)
		case 1:
			lines = append(lines, genI(r, &bLen))
		case 2:
			lines = append(lines, genB(r, bLen))
		case 3:
			lines = append(lines, "")
		case 4:
			lines = append(lines, []string{"C0101011200000101010001", "F120000010203", "GABCDEF", "LXXXcomment", "E120000PEV", "b1200001234567N", "\x00\x01\x02", "I", "B"}[r.Intn(9)])
		case 5:
			lines = append(lines, garble(r, genB(r, bLen)))
		}
	}
	return lines
}

func (prop) Generate(r *prng.Rand, phase string) any {
	s := &Scenario{Mode: phase, A: genA(r), Layout: 4 + r.Pick(3, 3, 1), WriteFail: -1}
	if s.Layout > 4 {
		s.Extra = mgeom.F([]float64{0, 0, 1, -1, 123, 9999, 20000, 1e9}[r.Intn(8)])
	}
	s.Fixes = genTrack(r)
	s.Read = simio.NoFault()
	// read plan
	sizes := []int{1, 2, 3, 7, 16, 35, 36, 37, 64, 4096, 0}
	s.Read.Default = sizes[r.Intn(len(sizes))]
	for i := r.Pick(3, 2, 1) * r.Range(1, 10); i > 0; i-- {
		switch r.Pick(6, 2, 1) {
		case 0:
			s.Read.Dirs = append(s.Read.Dirs, simio.Dir{K: simio.Chunk, N: sizes[r.Intn(len(sizes)-1)]})
		case 1:
			s.Read.Dirs = append(s.Read.Dirs, simio.Dir{K: simio.Stall})
		case 2:
			s.Read.Dirs = append(s.Read.Dirs, simio.Dir{K: simio.DataEOF, N: sizes[r.Intn(len(sizes))]})
		}
	}
	if r.Chance(0.4) {
		s.TZ = []int{-12 * 3600, -9*3600 - 1800, -5 * 3600, -3600, 3600, 2 * 3600, 5*3600 + 2700, 9 * 3600, 13 * 3600, 14 * 3600}[r.Intn(10)]
	}
	if phase == "clean" {
		s.Reuse = r.Chance(0.4)
		s.Pipe = r.Chance(0.15)
		if r.Chance(0.3) {
			s.Prelude = genLines(r)
		}
		if r.Chance(0.15) {
			s.CleanWriteFail = 1 + r.Intn(40*len(s.Fixes)+40)
			s.CleanWFSticky = r.Chance(0.5)
		}
		return s
	}
	if len(s.Fixes) > 30 {
		s.Fixes = s.Fixes[:30]
	}
	if r.Chance(0.6) {
		s.Lines = genLines(r)
		s.Fixes = nil
	}
	if r.Chance(0.3) {
		s.EOL = "crlf"
	}
	approx := 40*len(s.Fixes) + 40*len(s.Lines) + 20
	nl := len(s.Fixes) + len(s.Lines) + 3
	for i := r.Pick(2, 3, 2, 1); i > 0; i-- {
		k := []string{"drop", "dup", "swap", "tear", "long"}[r.Pick(4, 4, 4, 4, 1)]
		s.LineEdits = append(s.LineEdits, LineEdit{K: k, I: r.Intn(nl), J: r.Intn(nl + 40)})
	}
	if r.Chance(0.06) {
		// a badly damaged file: every J-th record from I on has a character
		// that does not belong there (many record errors in one decode)
		s.LineEdits = append(s.LineEdits, LineEdit{K: "garble", I: r.Intn(3), J: 1 + r.Intn(2)})
	}
	for i := r.Pick(3, 2, 2, 1); i > 0; i-- {
		e := simio.Edit{Off: r.Intn(approx)}
		switch r.Intn(3) {
		case 0:
			e.K = "flip"
			e.N = r.Intn(8)
		case 1:
			e.K = "set"
			e.V = uint32([]byte{'\n', '\r', 'A', 'B', 'I', 'H', '-', 0, 0xff, '9'}[r.Intn(10)])
		case 2:
			e.K = "truncate"
		}
		s.Edits = append(s.Edits, e)
	}
	switch r.Pick(5, 2, 2, 1) {
	case 1:
		s.Read.ErrAt = r.Intn(approx)
		s.Read.ErrWithData = r.Chance(0.5)
		s.Read.ErrKind = simio.ErrKinds[r.Intn(len(simio.ErrKinds))]
	case 2:
		s.Read.TruncAt = r.Intn(approx)
	case 3:
		s.Read.StallForever = true
		s.Read.Dirs = append(s.Read.Dirs, simio.Dir{K: simio.Stall})
	}
	if r.Chance(0.2) {
		s.WriteFail = r.Intn(approx)
	}
	return s
}

func buildTrack(layout int, fixes []Fix, extra ...float64) *geom.LineString {
	stride := mgeom.Stride(layout)
	flat := make([]float64, 0, stride*len(fixes))
	for _, f := range fixes {
		c := make([]float64, stride)
		c[0], c[1], c[2], c[3] = float64(f.Lon), float64(f.Lat), float64(f.Alt), float64(f.T)
		for i := 4; i < stride && len(extra) > 0; i++ {
			c[i] = extra[0]
		}
		flat = append(flat, c...)
	}
	return geom.NewLineStringFlat(geom.Layout(layout), flat)
}

func clampAlt(alt float64) float64 {
	v := math.Trunc(alt)
	if v < 0 {
		return 0
	}
	if v > 10000 {
		return 10000
	}
	return v
}

// checkTrack encodes fixes, reads them back through plan and applies the
// clean-pipe oracle.
func checkTrack(res *core.Result, log *core.Log, s *Scenario, ses *session, fixes []Fix, plan simio.ReadPlan, what string, keep *kept) bool {
	ls := buildTrack(s.Layout, fixes, float64(s.Extra))
	if s.Layout > 4 && float64(s.Extra) != 0 {
		res.Count("probe:extra-ordinates-nonzero", 1)
	}
	w := simio.NewWriter(simio.WritePlan{FailAt: -1})
	var err error
	var enc *igc.Encoder
	if ses != nil {
		// the same Encoder value as for the earlier tracks of this run, this
		// track's output going to its own writer
		if ses.enc == nil {
			ses.sw = &switchWriter{}
			ses.enc = igc.NewEncoder(ses.sw, igc.A(s.A))
		} else {
			res.Count("probe:encoder-reused", 1)
			what += " (encoder reused)"
		}
		ses.sw.w = w
		enc = ses.enc
	} else {
		enc = igc.NewEncoder(w, igc.A(s.A))
	}
	if p := core.Guard(func() { err = enc.Encode(ls) }); p != "" {
		res.Fail("panic", "panic:encode:"+core.PanicSite(p), "Encode panicked (%s): %s", what, p)
		return false
	}
	res.Steps += len(w.Calls)
	if err != nil {
		res.Fail("encode-error", "encode-error", "Encode (%s) into a healthy writer failed: %v", what, err)
		return false
	}
	r := simio.NewReader(w.Buf, plan)
	r.MaxCalls = 4*len(w.Buf) + 400
	var t *igc.T
	if p := core.Guard(func() { t, err = igc.Read(r) }); p != "" {
		if r.Runaway {
			res.Fail("runaway-reader", "runaway-reader", "Read (%s) went on calling the reader (%d calls for %d bytes) although it kept refusing", what, len(r.Calls), len(w.Buf))
			return false
		}
		res.Fail("panic", "panic:read:"+core.PanicSite(p), "Read panicked (%s) on\n%s\n%s", what, w.Buf, p)
		return false
	}
	res.Steps += len(r.Calls)
	res.Count("read-split", int64(r.Splits))
	res.Count("read-stall", int64(r.Stalls))
	res.Count("read-data+eof", int64(r.DataEOFs))
	log.Addf("%s: %d fixes -> %d bytes, %d write calls, %d read calls, err=%v", what, len(fixes), len(w.Buf), len(w.Calls), len(r.Calls), err)
	if r.Runaway {
		res.Fail("runaway-reader", "runaway-reader", "Read (%s) called the reader more than %d times for %d bytes", what, len(r.Calls), len(w.Buf))
		return false
	}
	if t == nil || t.LineString == nil {
		res.Fail("nil-result", "nil-result", "Read (%s) returned no track (err=%v)", what, err)
		return false
	}
	if err != nil {
		var list igc.Errors
		if !errors.As(err, &list) || len(list) == 0 {
			res.Fail("errors-not-a-list", "errors-not-a-list", "Read (%s) returned the error %T %q, not the list of record errors (igc.Errors)", what, err, oneLine(err.Error()))
			return false
		}
	}
	if !checkHeaders(res, t, w.Buf, what) {
		return false
	}
	if err != nil {
		sig := "clean-pipe-record-errors"
		msg := err.Error()
		switch {
		case strings.Contains(msg, "out of range: 90"):
			sig += ":latitude-90"
		case strings.Contains(msg, "out of range: 180"):
			sig += ":longitude-180"
		}
		res.Fail("clean-pipe-errors", sig, "Read (%s) of the encoder's own output reported errors: %s; stream:\n%s", what, oneLine(msg), head(w.Buf))
		return false
	}
	if ses != nil || keep != nil {
		if keep != nil {
			*keep = kept{t: t, fixes: fixes, stream: w.Buf, what: what}
		}
	}
	return verifyTrack(res, fixes, t.LineString, what, w.Buf)
}

// headerRecords: "its headers" for an arbitrary stream that was read to its end,
// stated only as far as the IGC format itself defines an H record (the letter H,
// a one-letter source, a three-character code of capitals and digits): in a
// stream that begins with its A record, every line of that shape after it is
// one returned header with that source and code, in the order of the lines;
// and there are never more headers than lines beginning with H. Whether the
// rest of a record (a date, say) is acceptable does not decide whether it is a
// header. Nothing is said about streams with anything before the A record or
// about H lines of another shape.
func headerRecords(text []byte, got []igc.Header) string {
	lines := strings.Split(string(text), "\n")
	first := 0
	for first < len(lines) && strings.TrimSuffix(lines[first], "\r") == "" {
		first++
	}
	if first == len(lines) || !strings.HasPrefix(lines[first], "A") {
		return ""
	}
	type sk struct{ source, key string }
	var want []sk
	hLines := 0
	for _, ln := range lines[first+1:] {
		ln = strings.TrimSuffix(ln, "\r")
		if !strings.HasPrefix(ln, "H") {
			continue
		}
		hLines++
		if len(ln) < 5 || ln[1] < 'A' || ln[1] > 'Z' {
			continue
		}
		ok := true
		for _, c := range []byte(ln[2:5]) {
			if !(c >= 'A' && c <= 'Z' || c >= '0' && c <= '9') {
				ok = false
			}
		}
		if ok {
			want = append(want, sk{ln[1:2], ln[2:5]})
		}
	}
	if len(got) > hLines {
		return fmt.Sprintf("Read returned %d headers for a stream with %d lines that begin with H", len(got), hLines)
	}
	j := 0
	for i, w := range want {
		for j < len(got) && !(got[j].Source == w.source && got[j].Key == w.key) {
			j++
		}
		if j == len(got) {
			return fmt.Sprintf("Read returned the headers %v: H record %d of the stream (source %s, code %s) is not among them in its place", got, i, w.source, w.key)
		}
		j++
	}
	return ""
}

// brokenBRecords counts, in a stream that begins with its A record, the lines
// that begin with B and cannot be a whole fix by the IGC format: shorter than
// the format's 35 characters, or with something other than a digit or a minus
// sign in the time, latitude or longitude columns. The last line is left out when the stream does
// not end in a line feed (it may have been cut).
func brokenBRecords(text []byte) int {
	lines := strings.Split(string(text), "\n")
	first := 0
	for first < len(lines) && strings.TrimSuffix(lines[first], "\r") == "" {
		first++
	}
	if first == len(lines) || !strings.HasPrefix(lines[first], "A") {
		return 0
	}
	lines = lines[first+1:]
	if len(lines) > 0 {
		lines = lines[:len(lines)-1] // what follows the last line feed
	}
	n := 0
	for _, ln := range lines {
		ln = strings.TrimSuffix(ln, "\r")
		if !strings.HasPrefix(ln, "B") {
			continue
		}
		if len(ln) < 35 {
			n++
			continue
		}
		digits := func(from, to int) bool {
			for _, c := range []byte(ln[from:to]) {
				if (c < '0' || c > '9') && c != '-' { // (upstream reads a leading minus sign as part of a number: tolerated)
					return false
				}
			}
			return true
		}
		if !digits(1, 7) || !digits(7, 14) || !digits(15, 23) {
			n++
		}
	}
	return n
}

var dteLine = regexp.MustCompile(`^HFDTE(\d{6})$`)

// checkHeaders: for a stream whose H records are all of the plain form
// HFDTEddmmyy (what the encoder writes today), the returned headers are those
// records in order: source F, key DTE, no long name, value ddmmyy. Any other
// H record in the stream switches the check off (the long forms are the
// decoder's business, not stated here).
func checkHeaders(res *core.Result, t *igc.T, stream []byte, what string) bool {
	var want []string
	seenA := false
	for _, ln := range strings.Split(string(stream), "\n") {
		ln = strings.TrimSuffix(ln, "\r")
		if !seenA {
			seenA = strings.HasPrefix(ln, "A")
			continue
		}
		if strings.HasPrefix(ln, "H") {
			m := dteLine.FindStringSubmatch(ln)
			if m == nil {
				return true
			}
			want = append(want, m[1])
		}
	}
	res.Count("probe:headers-checked", 1)
	if len(t.Headers) != len(want) {
		res.Fail("headers-differ", "headers-differ:count", "Read (%s) returned %d headers for a stream with %d date records: %v", what, len(t.Headers), len(want), t.Headers)
		return false
	}
	for i, h := range t.Headers {
		if h.Source != "F" || h.Key != "DTE" || h.KeyExtra != "" || h.Value != want[i] {
			res.Fail("headers-differ", "headers-differ", "Read (%s): header %d is %+v, the stream's record %d is HFDTE%s", what, i, h, i, want[i])
			return false
		}
	}
	return true
}

// encodeIntoFailingWriter: Encode into a writer that fails at an offset. What
// the encoder must do with the error is not stated; but if it reports success
// the track has been written, so what the writer accepted must read back as
// the whole track.
func encodeIntoFailingWriter(res *core.Result, log *core.Log, s *Scenario) bool {
	ls := buildTrack(s.Layout, s.Fixes, float64(s.Extra))
	w := simio.NewWriter(simio.WritePlan{FailAt: s.CleanWriteFail, Short: true, Transient: !s.CleanWFSticky})
	var err error
	if p := core.Guard(func() { err = igc.NewEncoder(w, igc.A(s.A)).Encode(ls) }); p != "" {
		res.Fail("panic", "panic:encode:"+core.PanicSite(p), "Encode into a failing writer panicked: %s", p)
		return false
	}
	if w.Fails == 0 {
		return true
	}
	res.Count("write-fail", 1)
	log.Addf("encoder's writer failed at %d (sticky %v): err=%v, %d bytes accepted", s.CleanWriteFail, s.CleanWFSticky, err, len(w.Buf))
	if err != nil {
		return true
	}
	res.Count("encode-reported-success-although-the-writer-failed", 1) // stays at zero with an encoder that reports every write error
	t, rerr := igc.Read(bytes.NewReader(w.Buf))
	if rerr != nil || t == nil || t.LineString == nil || t.LineString.NumCoords() != len(s.Fixes) {
		n := -1
		if t != nil && t.LineString != nil {
			n = t.LineString.NumCoords()
		}
		res.Fail("encode-error-lost", "encode-error-lost", "the writer failed at offset %d but Encode reported success; the %d bytes it accepted read back as %d of %d fixes (err=%v)", s.CleanWriteFail, len(w.Buf), n, len(s.Fixes), rerr)
		return false
	}
	return verifyTrack(res, s.Fixes, t.LineString, "after a writer failure that Encode did not report", w.Buf)
}

// kept is a decode result that is looked at again after later decodes.
type kept struct {
	t      *igc.T
	fixes  []Fix
	stream []byte
	what   string
}

// verifyTrack applies the clean-pipe oracle to a decoded track.
func verifyTrack(res *core.Result, fixes []Fix, got *geom.LineString, what string, stream []byte) bool {
	w := struct{ Buf []byte }{stream}
	if got.Stride() != 5 || len(got.FlatCoords())%5 != 0 {
		res.Fail("not-5d", "not-5d", "Read (%s) returned stride %d with %d ordinates", what, got.Stride(), len(got.FlatCoords()))
		return false
	}
	if got.NumCoords() != len(fixes) {
		res.Fail("fix-count", "fix-count", "track of %d fixes came back with %d fixes (%s); stream:\n%s", len(fixes), got.NumCoords(), what, head(w.Buf))
		return false
	}
	for i, f := range fixes {
		c := got.Coord(i)
		lon, lat := float64(f.Lon), float64(f.Lat)
		const tol = 1.0/60000 + 1e-9
		if math.Abs(c[0]-lon) > tol || math.IsNaN(c[0]) {
			res.Fail("longitude-off", "longitude-off", "fix %d longitude %v came back as %v (%s)", i, lon, c[0], what)
			return false
		}
		if math.Abs(c[1]-lat) > tol || math.IsNaN(c[1]) {
			res.Fail("latitude-off", "latitude-off", "fix %d latitude %v came back as %v (%s)", i, lat, c[1], what)
			return false
		}
		if want := clampAlt(float64(f.Alt)); c[2] != want {
			res.Fail("altitude-off", "altitude-off", "fix %d altitude %v came back as %v, want %v (%s)", i, float64(f.Alt), c[2], want, what)
			return false
		}
		wantT := math.Floor(float64(f.T))
		if math.Round(c[3]) != wantT {
			sig := "timestamp-off"
			if d := math.Round(c[3]) - wantT; d > 2.2e9 && d < 2.21e9+86400*2 && wantT < 946684800 {
				sig = "timestamp-off:two-digit-year-before-2000"
			}
			res.Fail("timestamp-off", sig, "fix %d timestamp %v (%s) came back as %v (%s), off by %v s (%s); stream:\n%s", i, wantT, utc(wantT), c[3], utc(c[3]), c[3]-wantT, what, head(w.Buf))
			return false
		}
	}
	return true
}

func utc(sec float64) string {
	// civil date from seconds, written out to keep the harness clock-free
	days := int64(math.Floor(sec / 86400))
	rem := int64(sec) - days*86400
	z := days + 719468
	era := z / 146097
	doe := z - era*146097
	yoe := (doe - doe/1460 + doe/36524 - doe/146096) / 365
	y := yoe + era*400
	doy := doe - (365*yoe + yoe/4 - yoe/100)
	mp := (5*doy + 2) / 153
	d := doy - (153*mp+2)/5 + 1
	m := mp + 3
	if m > 12 {
		m -= 12
		y++
	}
	return fmt.Sprintf("%04d-%02d-%02dT%02d:%02d:%02dZ", y, m, d, rem/3600, rem%3600/60, rem%60)
}

func oneLine(s string) string {
	s = strings.ReplaceAll(s, "\n", " | ")
	if len(s) > 300 {
		s = s[:300] + "..."
	}
	return s
}

func head(b []byte) string {
	if len(b) > 600 {
		return string(b[:600]) + "..."
	}
	return string(b)
}

func trackProbes(res *core.Result, fixes []Fix) (crossings int) {
	for i, f := range fixes {
		if float64(f.T) < 946684800 {
			res.Count("probe:year<2000", 1)
		}
		if math.Abs(float64(f.Lat)) == 90 {
			res.Count("probe:lat==+-90", 1)
		}
		if math.Abs(float64(f.Lon)) == 180 {
			res.Count("probe:lon==+-180", 1)
		}
		if a := float64(f.Alt); a < 0 || a > 10000 {
			res.Count("probe:alt-clamped", 1)
		}
		if float64(f.T) != math.Floor(float64(f.T)) {
			res.Count("probe:fractional-second", 1)
		}
		if i > 0 && math.Floor(float64(f.Lon)*60000) == math.Floor(float64(fixes[i-1].Lon)*60000) && math.Floor(float64(f.Lat)*60000) == math.Floor(float64(fixes[i-1].Lat)*60000) && clampAlt(float64(f.Alt)) == clampAlt(float64(fixes[i-1].Alt)) && math.Mod(math.Floor(float64(f.T)), 86400) == math.Mod(math.Floor(float64(fixes[i-1].T)), 86400) {
			res.Count("probe:consecutive-fixes-with-identical-records", 1)
		}
		if i > 0 {
			d0, d1 := math.Floor(float64(fixes[i-1].T)/86400), math.Floor(float64(f.T)/86400)
			if d0 != d1 {
				crossings++
				res.Count("probe:day-rollover", 1)
				if utc(float64(fixes[i-1].T))[:4] != utc(float64(f.T))[:4] {
					res.Count("probe:year-rollover", 1)
				}
			}
		}
	}
	return crossings
}

func (prop) Execute(scAny any, phase string, log *core.Log) core.Result {
	s := scAny.(*Scenario)
	var res core.Result
	defer setZone(s.TZ)()
	if s.TZ != 0 {
		res.Count("probe:local-zone-not-utc", 1)
	}
	if s.Mode == "clean" {
		crossings := trackProbes(&res, s.Fixes)
		var ses *session
		if s.Reuse {
			ses = &session{}
		}
		if len(s.Prelude) > 0 {
			res.Count("probe:decode-after-an-unrelated-stream", 1)
			text := strings.Join(s.Prelude, "\n") + "\n"
			if p := core.Guard(func() { _, _ = igc.Read(strings.NewReader(text)) }); p != "" {
				res.Fail("panic", "panic:read:"+core.PanicSite(p), "Read panicked on the prelude stream: %s\n%s", p, head([]byte(text)))
				return res
			}
		}
		if s.CleanWriteFail > 0 && !encodeIntoFailingWriter(&res, log, s) {
			return res
		}
		var first kept
		if !checkTrack(&res, log, s, ses, s.Fixes, s.Read, "whole track", &first) {
			return res
		}
		fired := res.Counters["read-split"]+res.Counters["read-stall"]+res.Counters["read-data+eof"] > 0
		if len(s.Fixes) <= 24 {
			for n := 0; n < len(s.Fixes); n++ {
				res.Count("probe:prefix-tracks", 1)
				if !checkTrack(&res, log, s, ses, s.Fixes[:n], s.Read, fmt.Sprintf("prefix of %d fixes", n), nil) {
					return res
				}
			}
			// the first result is the caller's: later decodes must not have
			// reached into it
			if first.t != nil && len(s.Fixes) > 0 {
				// one more decode of a track that differs in every position and
				// altitude (the prefixes repeat the first track's values)
				decoy := make([]Fix, len(s.Fixes))
				for i, f := range s.Fixes {
					decoy[i] = Fix{Lon: mgeom.F(clampF(1.5-float64(f.Lon), -180, 180)), Lat: mgeom.F(clampF(0.75-float64(f.Lat), -90, 90)), Alt: mgeom.F(9876 - clampAlt(float64(f.Alt))), T: f.T}
				}
				if !checkTrack(&res, log, s, ses, decoy, s.Read, "decoy track", nil) {
					return res
				}
				res.Count("probe:first-result-rechecked-after-later-decodes", 1)
				if !verifyTrack(&res, first.fixes, first.t.LineString, first.what+", looked at again after the later decodes of this run", first.stream) {
					if res.Violation != nil {
						res.Violation.Sig = "result-changed-later:" + res.Violation.Sig
					}
					return res
				}
			}
		}
		if s.Pipe && len(s.Fixes) > 0 {
			// one in-memory pipe (a real bytes.Buffer) carries two logs in turn:
			// written, read back, written again, read back again. Reading a
			// stream consumes it.
			var buf bytes.Buffer
			for round, fx := range [][]Fix{s.Fixes, s.Fixes[:(len(s.Fixes)+1)/2]} {
				var t *igc.T
				var eerr, rerr error
				if p := core.Guard(func() {
					eerr = igc.NewEncoder(&buf, igc.A(s.A)).Encode(buildTrack(s.Layout, fx, float64(s.Extra)))
					stream := append([]byte(nil), buf.Bytes()...)
					t, rerr = igc.Read(&buf)
					_ = stream
				}); p != "" {
					res.Fail("panic", "panic:read:"+core.PanicSite(p), "round %d through one bytes.Buffer panicked: %s", round, p)
					return res
				}
				if eerr != nil || rerr != nil || t == nil || t.LineString == nil {
					res.Fail("clean-pipe-errors", "clean-pipe-record-errors:one-buffer", "round %d through one bytes.Buffer: Encode error %v, Read error %v", round, eerr, rerr)
					return res
				}
				if !verifyTrack(&res, fx, t.LineString, fmt.Sprintf("log %d written into and read back from one bytes.Buffer", round+1), nil) {
					if res.Violation != nil {
						res.Violation.Sig = "one-buffer:" + res.Violation.Sig
					}
					return res
				}
			}
			res.Count("probe:one-buffer-carries-two-logs", 1)
		}
		res.Nontrivial = len(s.Fixes) >= 1 && fired
		res.StateKey = fmt.Sprintf("clean|%d|%d|%d|%v|%v|%v", bucket(len(s.Fixes)), crossings, s.Layout, fired, s.Reuse, s.TZ != 0)
		return res
	}
	return faulty(s, log)
}

func bucket(n int) int {
	switch {
	case n <= 3:
		return n
	case n <= 12:
		return 12
	case n <= 40:
		return 40
	}
	return 200
}

func faulty(s *Scenario, log *core.Log) core.Result {
	var res core.Result
	var text []byte
	eol := "\n"
	if s.EOL == "crlf" {
		eol = "\r\n"
	}
	if len(s.Lines) > 0 {
		text = []byte(strings.Join(s.Lines, eol) + eol)
	} else {
		trackProbes(&res, s.Fixes)
		ls := buildTrack(s.Layout, s.Fixes, float64(s.Extra))
		w := simio.NewWriter(simio.WritePlan{FailAt: s.WriteFail, Short: true})
		var err error
		if p := core.Guard(func() { err = igc.NewEncoder(w, igc.A(s.A)).Encode(ls) }); p != "" {
			res.Fail("panic", "panic:encode:"+core.PanicSite(p), "Encode panicked: %s", p)
			return res
		}
		res.Steps += len(w.Calls)
		if w.Fails > 0 {
			res.Count("write-fail", 1)
			log.Addf("encoder's writer failed at %d: err=%v", s.WriteFail, err)
		}
		text = w.Buf
		if eol != "\n" {
			text = bytes.ReplaceAll(text, []byte("\n"), []byte(eol))
		}
	}
	// record-level faults
	lines := strings.SplitAfter(string(text), "\n")
	if n := len(lines); n > 0 && lines[n-1] == "" {
		lines = lines[:n-1]
	}
	for _, e := range s.LineEdits {
		if len(lines) == 0 {
			break
		}
		i := e.I % len(lines)
		switch e.K {
		case "drop":
			lines = append(lines[:i:i], lines[i+1:]...)
			res.Count("line-drop", 1)
		case "dup":
			lines = append(lines[:i+1:i+1], append([]string{lines[i]}, lines[i+1:]...)...)
			res.Count("line-dup", 1)
		case "swap":
			j := e.J % len(lines)
			if i != j {
				lines[i], lines[j] = lines[j], lines[i]
				res.Count("line-swap", 1)
			}
		case "tear":
			if len(lines[i]) > 1 {
				cut := e.J % len(lines[i])
				if strings.HasPrefix(lines[i], "B") {
					res.Count("probe:torn-inside-B", 1)
				}
				lines[i] = lines[i][:cut] // the line feed is lost too: joins with the next record
				res.Count("line-tear", 1)
			}
		case "garble":
			step := e.J%3 + 1
			n := 0
			for k := e.I % 3; k < len(lines); k += step {
				if len(lines[k]) > 12 && lines[k][0] == 'B' {
					lines[k] = lines[k][:9] + "x" + lines[k][10:]
					n++
				}
			}
			if n > 0 {
				res.Count("line-garble", 1)
			}
		case "long":
			body := strings.TrimRight(lines[i], "\r\n")
			lines[i] = body + strings.Repeat("7", 66000+e.J) + eol
			res.Count("line-long", 1)
			res.Count("probe:line>64KiB", 1)
		}
	}
	text = []byte(strings.Join(lines, ""))
	text, fired := simio.Apply(text, s.Edits)
	res.Count("byte-edit", int64(fired))
	// reach probes on what the decoder will see
	bLen, hasB, seenA := 35, false, false
	// possibleFixes is an upper bound of the number of fixes the stream can
	// hold: B records (wherever the decoder takes the A record to be) that are at least as long as the
	// format's shortest B record and carry N/S and E/W where the hemisphere
	// letters belong. (Nothing else about a record's validity is judged here.)
	possibleFixes := 0
	for _, ln := range strings.Split(string(text), "\n") {
		ln = strings.TrimSuffix(ln, "\r")
		if len(ln) == 0 {
			continue
		}
		if ln[0] == 'B' && len(ln) >= 35 && (ln[14] == 'N' || ln[14] == 'S') && (ln[23] == 'E' || ln[23] == 'W') {
			possibleFixes++
		}
		if !seenA {
			if ln[0] == 'A' {
				seenA = true
			} else {
				res.Count("probe:noise-before-A", 1)
			}
			continue
		}
		switch ln[0] {
		case 'I':
			res.Count("probe:I-record", 1)
			if len(ln) >= 10 && len(ln) >= 7 {
				var st, en int
				if _, err := fmt.Sscanf(ln[3:7], "%02d%02d", &st, &en); err == nil && st == bLen+1 && en >= st {
					bLen = en
					res.Count("probe:I-record-extends-B", 1)
				}
			}
		case 'B':
			hasB = true
			if len(ln) < bLen {
				res.Count("probe:B-shorter-than-announced", 1)
			}
		}
	}
	r := simio.NewReader(text, s.Read)
	r.MaxCalls = 4*len(text) + 400
	var t *igc.T
	var err error
	if p := core.Guard(func() { t, err = igc.Read(r) }); p != "" {
		if r.Runaway {
			res.Count("read-error", int64(r.Errs))
			res.Fail("runaway-reader", "runaway-reader", "Read went on calling the reader (%d calls for %d bytes; %d stalls, %d errors returned) although it kept refusing; stream:\n%s", len(r.Calls), len(text), r.Stalls, r.Errs, head(text))
			return res
		}
		res.Fail("panic", "panic:read:"+core.PanicSite(p), "Read panicked: %s; stream (%d bytes):\n%s", p, len(text), head(text))
		return res
	}
	res.Steps += len(r.Calls)
	res.Count("read-split", int64(r.Splits))
	res.Count("read-stall", int64(r.Stalls))
	res.Count("read-data+eof", int64(r.DataEOFs))
	res.Count("read-error", int64(r.Errs))
	res.Count("read-truncate", int64(r.Truncs))
	if s.Read.StallForever && r.Stalls > 3 {
		res.Count("stall-forever", 1)
	}
	log.Addf("faulty: %d bytes, %d read calls (stalls %d, errs %d), err=%v", len(text), len(r.Calls), r.Stalls, r.Errs, err != nil)
	if r.Runaway {
		res.Fail("runaway-reader", "runaway-reader", "Read called the reader more than %d times for %d bytes", len(r.Calls), len(text))
		return res
	}
	if t == nil || t.LineString == nil {
		res.Fail("nil-result", "nil-result", "Read returned no track (err=%v)", err)
		return res
	}
	if t.LineString.Stride() != 5 || t.LineString.Layout().Stride() != 5 || len(t.LineString.FlatCoords())%5 != 0 {
		res.Fail("not-5d", "not-5d", "Read returned layout %s stride %d with %d ordinates", t.LineString.Layout(), t.LineString.Stride(), len(t.LineString.FlatCoords()))
		return res
	}
	delivered := 0
	for _, c := range r.Calls {
		delivered += c.N
	}
	if r.Errs == 0 && !s.Read.StallForever && len(text) < 60000 && delivered <= len(text) {
		// (what the decoder was given: the reader may end the stream early)
		if d := headerRecords(text[:delivered], t.Headers); d != "" {
			res.Fail("headers-differ", "headers-differ:records", "%s; stream:\n%s", d, head(text))
			return res
		}
		// "the list of record errors": one entry for each record that is in
		// error. B records that cannot be whole fixes by the format itself (too
		// short, or a character that is neither digit nor sign where time,
		// latitude or longitude digits belong) are such records, so the list has at least
		// as many entries as there are of them - counted, like the headers,
		// only in streams that begin with their A record.
		if bad := brokenBRecords(text[:delivered]); bad > 0 {
			var list igc.Errors
			errors.As(err, &list)
			if len(list) < bad {
				res.Fail("errors-not-a-list", "errors-not-a-list:fewer-than-broken-records", "Read returned %d errors for a stream with %d B records that cannot be whole fixes (err=%v); stream:\n%s", len(list), bad, oneLine(fmt.Sprint(err)), head(text))
				return res
			}
			if bad >= 3 {
				res.Count("probe:>=3-broken-B-records", 1)
			}
		}
	}
	if n := t.LineString.NumCoords(); n > possibleFixes && len(text) < 60000 {
		// (lines beyond the scanner's token limit end the decode early; the
		// bound is only stated for streams without them)
		res.Fail("phantom-fix", "phantom-fix", "Read returned %d fixes, but the stream holds only %d B records that are long enough and carry hemisphere letters; stream:\n%s", n, possibleFixes, head(text))
		return res
	}
	if err != nil {
		var list igc.Errors
		isList := errors.As(err, &list)
		if r.Errs == 0 && r.Stalls == 0 && (!isList || len(list) == 0) {
			// (with a failing or stalling reader an I/O error of another type
			// would be a legitimate thing to return: nothing is demanded then)
			res.Fail("errors-not-a-list", "errors-not-a-list", "Read returned the error %T, not the list of record errors (igc.Errors)", err)
			return res
		}
		res.Count("probe:record-errors-returned", 1)
		// rendering the error is a query: the list of record errors is the
		// same before and after, and the text is the same twice
		var each []string
		for _, e := range list {
			if e == nil {
				res.Fail("errors-not-a-list", "errors-not-a-list:nil-entry", "the list of record errors holds a nil entry")
				return res
			}
			each = append(each, e.Error())
		}
		if len(list) > 16 {
			res.Count("probe:record-errors>16", 1)
		}
		var msg, msg2 string
		if p := core.Guard(func() { msg = err.Error(); msg2 = err.Error() }); p != "" {
			res.Fail("panic", "panic:error-render:"+core.PanicSite(p), "rendering the returned error panicked: %s", p)
			return res
		}
		if msg != msg2 {
			res.Fail("error-render-changes-errors", "error-render-changes-errors:text", "the returned error renders differently the second time:\n%s\n%s", oneLine(msg), oneLine(msg2))
			return res
		}
		var list2 igc.Errors
		errors.As(err, &list2)
		if len(list2) != len(each) {
			res.Fail("error-render-changes-errors", "error-render-changes-errors", "after Error() the list of record errors has %d entries, before %d", len(list2), len(each))
			return res
		}
		for i, e := range list2 {
			if e == nil || e.Error() != each[i] {
				res.Fail("error-render-changes-errors", "error-render-changes-errors", "after Error() on the returned list, record error %d of %d is %v; before it was %q", i, len(each), e, each[i])
				return res
			}
		}
		log.Addf("errors: %d bytes of text", len(msg))
	}
	for _, h := range t.Headers {
		_ = h.Key + h.Value + h.KeyExtra + h.Source
	}
	log.Addf("result: %d fixes, %d headers", t.LineString.NumCoords(), len(t.Headers))
	anyFault := fired > 0 || r.Splits+r.Stalls+r.DataEOFs+r.Errs+r.Truncs > 0
	for _, k := range []string{"line-drop", "line-dup", "line-swap", "line-tear", "line-long", "line-garble"} {
		if res.Counters[k] > 0 {
			anyFault = true
		}
	}
	res.Nontrivial = hasB && anyFault
	var letters strings.Builder
	for _, ln := range strings.Split(string(text), "\n") {
		if len(ln) > 0 && letters.Len() < 10 {
			letters.WriteByte(ln[0])
		}
	}
	var kinds []string
	for _, k := range core.SortedKeys(res.Counters) {
		if !strings.HasPrefix(k, "probe:") && res.Counters[k] > 0 {
			kinds = append(kinds, k)
		}
	}
	res.StateKey = "faulty|" + letters.String() + "|" + strings.Join(kinds, ",")
	return res
}

// GenText draws an IGC text (the encoder's output for a small generated track,
// or a hand-composed record stream) for use as decoder input elsewhere.
func GenText(r *prng.Rand) string {
	if r.Chance(0.5) {
		return strings.Join(genLines(r), "\n") + "\n"
	}
	fixes := genTrack(r)
	if len(fixes) > 12 {
		fixes = fixes[:12]
	}
	var b bytes.Buffer
	_ = igc.NewEncoder(&b, igc.A(genA(r))).Encode(buildTrack(4, fixes))
	return b.String()
}
