// Package simio holds the simulated environment of the stream codecs: a reader
// and a writer whose every call is decided by a closed directive plan, and a
// medium (the bytes that lie between a writer and a later reader) on which
// storage/transport faults are applied as edits.
package simio

import (
	"errors"
	"fmt"
	"io"
	"strings"
)

// RunawayPanic is what a simulated reader panics with when its caller went on
// calling it long after it started refusing.
const RunawayPanic = "simio: runaway reader stopped"

// ErrInjected is the error simulated devices fail with by default.
var ErrInjected = errors.New("simio: injected device error")

// netErr is an injected error that says of itself that it is temporary and/or
// a timeout, as errors of network connections and deadlines do; code that
// retries on such errors takes that path.
type netErr struct {
	msg                string
	temporary, timeout bool
}

func (e *netErr) Error() string   { return e.msg }
func (e *netErr) Temporary() bool { return e.temporary }
func (e *netErr) Timeout() bool   { return e.timeout }

var (
	errTemporary = &netErr{msg: "simio: injected temporary device error", temporary: true}
	errTimeout   = &netErr{msg: "simio: injected i/o timeout", temporary: true, timeout: true}
)

// ErrKinds are the kinds of error a simulated device can be told to fail with.
var ErrKinds = []string{"", "temporary", "timeout", "unexpected-eof", "closed-pipe", "no-progress"}

// ErrOf returns the error of the given kind ("" = ErrInjected).
func ErrOf(kind string) error {
	switch kind {
	case "temporary":
		return errTemporary
	case "timeout":
		return errTimeout
	case "unexpected-eof":
		return io.ErrUnexpectedEOF
	case "closed-pipe":
		return io.ErrClosedPipe
	case "no-progress":
		return io.ErrNoProgress
	}
	return ErrInjected
}

// Reports says whether err reports the injected error of the given kind: the
// error itself, a wrapping of it, or a text that quotes it.
func Reports(err error, kind string) bool {
	want := ErrOf(kind)
	return err != nil && (errors.Is(err, want) || strings.Contains(err.Error(), want.Error()))
}

// Directive kinds of a read plan; one directive is consumed per Read call.
const (
	Chunk   = "chunk"   // deliver min(N, len(p), remaining) >= 1 bytes
	Stall   = "stall"   // return (0, nil)
	DataEOF = "dataeof" // deliver as chunk; if that exhausts the source return io.EOF in the same call
)

// Dir is one read directive.
type Dir struct {
	K string `json:"k"`
	N int    `json:"n,omitempty"`
}

// ReadPlan is the complete, closed description of how a reader behaves.
type ReadPlan struct {
	Dirs []Dir `json:"dirs,omitempty"`
	// Default chunk size once Dirs are used up (0 = everything asked for).
	Default int `json:"default,omitempty"`
	// ErrAt >= 0: when the cursor reaches ErrAt, fail with ErrInjected. With
	// ErrWithData the error is returned in the same call as the bytes just
	// before ErrAt, otherwise by the next call.
	ErrAt       int  `json:"err_at"`
	ErrWithData bool `json:"err_with_data,omitempty"`
	// ErrKind selects what the reader fails with (see ErrKinds).
	ErrKind string `json:"err_kind,omitempty"`
	// TruncAt >= 0: the source ends at TruncAt (clean EOF).
	TruncAt int `json:"trunc_at"`
	// MaxStalls bounds consecutive stalls so a conforming caller progresses
	// (0 = 3). Unbounded stalling is requested with StallForever.
	StallForever bool `json:"stall_forever,omitempty"`
}

// NoFault returns a plan without error or truncation.
func NoFault() ReadPlan { return ReadPlan{ErrAt: -1, TruncAt: -1} }

// Call records one Read or Write call.
type Call struct {
	Len int
	N   int
	Err string
}

// Reader is the simulated io.Reader.
type Reader struct {
	src    []byte
	plan   ReadPlan
	pos    int
	di     int
	stalls int
	failed bool
	Calls  []Call
	// Counters of what actually fired.
	Stalls, Splits, DataEOFs, Errs, Truncs int
	// MaxCalls aborts runaway callers (0 = 4*len+64).
	MaxCalls int
	Runaway  bool
}

// NewReader returns a reader over src driven by plan.
func NewReader(src []byte, plan ReadPlan) *Reader {
	return &Reader{src: src, plan: plan}
}

// Pos returns the number of bytes consumed so far.
func (r *Reader) Pos() int { return r.pos }

func (r *Reader) end() int {
	if r.plan.TruncAt >= 0 && r.plan.TruncAt < len(r.src) {
		return r.plan.TruncAt
	}
	return len(r.src)
}

func (r *Reader) record(l, n int, err error) (int, error) {
	c := Call{Len: l, N: n}
	if err != nil {
		c.Err = err.Error()
	}
	r.Calls = append(r.Calls, c)
	return n, err
}

// Read implements io.Reader according to the plan.
func (r *Reader) Read(p []byte) (int, error) {
	maxCalls := r.MaxCalls
	if maxCalls == 0 {
		maxCalls = 4*len(r.src) + 64
	}
	if len(r.Calls) >= maxCalls {
		r.Runaway = true
		if len(r.Calls) >= 2*maxCalls+64 {
			// the caller ignores errors and keeps calling: stop it the hard
			// way (callers of the code under test recover this and report a
			// runaway reader, see Runaway)
			panic(RunawayPanic)
		}
		return r.record(len(p), 0, fmt.Errorf("simio: reader called more than %d times", maxCalls))
	}
	if r.failed {
		return r.record(len(p), 0, ErrOf(r.plan.ErrKind))
	}
	end := r.end()
	limit := end
	if r.plan.ErrAt >= 0 && r.plan.ErrAt < limit {
		limit = r.plan.ErrAt
	}
	if r.plan.ErrAt >= 0 && r.pos >= r.plan.ErrAt && r.plan.ErrAt <= end {
		r.failed = true
		r.Errs++
		return r.record(len(p), 0, ErrOf(r.plan.ErrKind))
	}
	if r.pos >= end {
		if r.plan.TruncAt >= 0 && r.plan.TruncAt < len(r.src) {
			r.Truncs++
		}
		return r.record(len(p), 0, io.EOF)
	}
	if len(p) == 0 {
		return r.record(0, 0, nil)
	}
	d := Dir{K: Chunk, N: r.plan.Default}
	if r.di < len(r.plan.Dirs) {
		d = r.plan.Dirs[r.di]
		r.di++
	}
	if d.K == Stall {
		if r.plan.StallForever || r.stalls < 3 {
			r.stalls++
			r.Stalls++
			return r.record(len(p), 0, nil)
		}
		d = Dir{K: Chunk, N: 1}
	}
	r.stalls = 0
	n := d.N
	if n <= 0 || n > len(p) {
		n = len(p)
	}
	if n > limit-r.pos {
		n = limit - r.pos
	}
	if n < len(p) {
		r.Splits++
	}
	copy(p, r.src[r.pos:r.pos+n])
	r.pos += n
	if r.plan.ErrAt >= 0 && r.pos == r.plan.ErrAt && r.plan.ErrWithData && r.plan.ErrAt <= end {
		r.failed = true
		r.Errs++
		return r.record(len(p), n, ErrOf(r.plan.ErrKind))
	}
	if d.K == DataEOF && r.pos >= end {
		r.DataEOFs++
		return r.record(len(p), n, io.EOF)
	}
	return r.record(len(p), n, nil)
}

// ByteReader is the same simulated reader also offering io.ByteReader, as
// bufio.Reader, bytes.Reader and many application readers do; code that
// type-switches on the capabilities of its reader then takes its other path.
// Every ReadByte is one or more planned Read calls of one byte.
type ByteReader struct{ *Reader }

// ReadByte implements io.ByteReader on top of the plan.
func (b ByteReader) ReadByte() (byte, error) {
	var p [1]byte
	for {
		n, err := b.Reader.Read(p[:])
		if n == 1 {
			// an error delivered with the byte is reported by the next call
			// (the reader's failure and its end are both sticky)
			return p[0], nil
		}
		if err != nil {
			return 0, err
		}
	}
}

// With returns r itself or r with extra capabilities: "" plain, "byte" io.ByteReader.
func (r *Reader) With(caps string) io.Reader {
	if caps == "byte" {
		return ByteReader{r}
	}
	return r
}

// ByteWriter is the simulated writer also offering io.ByteWriter.
type ByteWriter struct{ *Writer }

// WriteByte implements io.ByteWriter.
func (b ByteWriter) WriteByte(c byte) error {
	_, err := b.Writer.Write([]byte{c})
	return err
}

// StringWriter is the simulated writer also offering io.StringWriter.
type StringWriter struct{ *Writer }

// WriteString implements io.StringWriter.
func (s StringWriter) WriteString(x string) (int, error) { return s.Writer.Write([]byte(x)) }

// With returns w itself or w with extra capabilities: "" plain, "byte"
// io.ByteWriter, "string" io.StringWriter.
func (w *Writer) With(caps string) io.Writer {
	switch caps {
	case "byte":
		return ByteWriter{w}
	case "string":
		return StringWriter{w}
	}
	return w
}

// WritePlan describes when a writer starts failing.
type WritePlan struct {
	// FailAt >= 0: the byte at offset FailAt is never accepted. The call that
	// would cross FailAt accepts the bytes before it (Short) or nothing at
	// all and returns ErrInjected; every later call returns (0, ErrInjected).
	FailAt int  `json:"fail_at"`
	Short  bool `json:"short,omitempty"`
	// Transient: only the call that crosses FailAt fails (accepting nothing);
	// later calls succeed again. An encoder that drops one error is then
	// visible as a nil result.
	Transient bool `json:"transient,omitempty"`
	// ErrKind selects what the writer fails with (see ErrKinds).
	ErrKind string `json:"err_kind,omitempty"`
}

// Writer is the simulated io.Writer.
type Writer struct {
	plan   WritePlan
	Buf    []byte
	failed bool
	Calls  []Call
	Fails  int
	// AfterFail counts calls made after the first failure was reported.
	AfterFail int
	// Lost counts bytes of the call a transient failure refused.
	Lost int
}

// NewWriter returns a writer that follows plan.
func NewWriter(plan WritePlan) *Writer { return &Writer{plan: plan} }

// Write implements io.Writer.
func (w *Writer) Write(p []byte) (int, error) {
	rec := func(n int, err error) (int, error) {
		c := Call{Len: len(p), N: n}
		if err != nil {
			c.Err = err.Error()
		}
		w.Calls = append(w.Calls, c)
		return n, err
	}
	if w.failed {
		w.AfterFail++
		return rec(0, ErrOf(w.plan.ErrKind))
	}
	if w.plan.FailAt >= 0 && w.plan.Transient && w.Fails == 0 && len(w.Buf)+len(p) > w.plan.FailAt {
		w.Fails++
		w.Lost += len(p)
		return rec(0, ErrOf(w.plan.ErrKind))
	}
	if w.plan.FailAt >= 0 && !w.plan.Transient && len(w.Buf)+len(p) > w.plan.FailAt {
		n := 0
		if w.plan.Short {
			n = w.plan.FailAt - len(w.Buf)
		}
		w.Buf = append(w.Buf, p[:n]...)
		w.failed = true
		w.Fails++
		return rec(n, ErrOf(w.plan.ErrKind))
	}
	w.Buf = append(w.Buf, p...)
	return rec(len(p), nil)
}

// Edit is one fault applied to stored bytes.
type Edit struct {
	K   string `json:"k"` // truncate, flip, set, u32, drop, dup, insert
	Off int    `json:"off"`
	N   int    `json:"n,omitempty"`   // length for drop/dup, bit for flip
	V   uint32 `json:"v,omitempty"`   // value for set (low byte) / u32
	BE  bool   `json:"be,omitempty"`  // byte order for u32
	Hex string `json:"hex,omitempty"` // bytes for insert
}

// Apply applies edits in order and returns the edited copy and how many edits
// had an effect.
func Apply(src []byte, edits []Edit) ([]byte, int) {
	b := append([]byte(nil), src...)
	fired := 0
	for _, e := range edits {
		if e.Off < 0 || e.Off > len(b) {
			continue
		}
		switch e.K {
		case "truncate":
			if e.Off < len(b) {
				b = b[:e.Off]
				fired++
			}
		case "flip":
			if e.Off < len(b) {
				b[e.Off] ^= 1 << (uint(e.N) & 7)
				fired++
			}
		case "set":
			if e.Off < len(b) {
				if b[e.Off] != byte(e.V) {
					fired++
				}
				b[e.Off] = byte(e.V)
			}
		case "u32":
			if e.Off+4 <= len(b) {
				if e.BE {
					b[e.Off], b[e.Off+1], b[e.Off+2], b[e.Off+3] = byte(e.V>>24), byte(e.V>>16), byte(e.V>>8), byte(e.V)
				} else {
					b[e.Off], b[e.Off+1], b[e.Off+2], b[e.Off+3] = byte(e.V), byte(e.V>>8), byte(e.V>>16), byte(e.V>>24)
				}
				fired++
			}
		case "drop":
			end := e.Off + e.N
			if e.N > 0 && end <= len(b) {
				b = append(b[:e.Off:e.Off], b[end:]...)
				fired++
			}
		case "dup":
			end := e.Off + e.N
			if e.N > 0 && end <= len(b) {
				seg := append([]byte(nil), b[e.Off:end]...)
				b = append(b[:end:end], append(seg, b[end:]...)...)
				fired++
			}
		case "insert":
			ins := unhex(e.Hex)
			if len(ins) > 0 {
				b = append(b[:e.Off:e.Off], append(ins, b[e.Off:]...)...)
				fired++
			}
		}
	}
	return b, fired
}

func unhex(s string) []byte {
	out := make([]byte, 0, len(s)/2)
	hv := func(c byte) int {
		switch {
		case '0' <= c && c <= '9':
			return int(c - '0')
		case 'a' <= c && c <= 'f':
			return int(c-'a') + 10
		case 'A' <= c && c <= 'F':
			return int(c-'A') + 10
		}
		return -1
	}
	for i := 0; i+1 < len(s); i += 2 {
		a, b := hv(s[i]), hv(s[i+1])
		if a < 0 || b < 0 {
			return nil
		}
		out = append(out, byte(a<<4|b))
	}
	return out
}
