package main

import (
	"encoding/json"
	"os"
	"strconv"
	"testing"

	"verif/sim/core"
	"verif/sim/prng"
)

// Every scenario a property generates must survive being written as a replay
// file: encode, strict Decode, encode again gives the same bytes. A scenario
// the worker can execute but Decode refuses would turn the confirmation of a
// violation into exit 2 (this happened once: a layout-less ring with
// coordinates in C02's generator).
func TestGeneratedScenariosDecode(t *testing.T) {
	n := 20000
	if s := os.Getenv("VERIF_ROUNDTRIP_N"); s != "" {
		n, _ = strconv.Atoi(s)
	}
	for _, id := range core.IDs() {
		p, _ := core.Lookup(id)
		seen := map[string]bool{}
		for _, tier := range []string{"quick", "thorough"} {
			for _, ph := range p.Plan(tier) {
				if seen[ph.Name] {
					continue
				}
				seen[ph.Name] = true
				bad := 0
				for seed := uint64(1); seed <= uint64(n); seed++ {
					sc := p.Generate(prng.New(seed), ph.Name)
					b, err := json.Marshal(sc)
					if err != nil {
						t.Fatalf("%s/%s seed %d: %v", id, ph.Name, seed, err)
					}
					sc2, err := p.Decode(b)
					if err != nil {
						if bad++; bad < 4 {
							t.Errorf("%s/%s seed %d: generated scenario does not decode: %v", id, ph.Name, seed, err)
						}
						continue
					}
					b2, _ := json.Marshal(sc2)
					if string(b) != string(b2) {
						if bad++; bad < 4 {
							t.Errorf("%s/%s seed %d: scenario changes when decoded and encoded again", id, ph.Name, seed)
						}
					}
				}
				t.Logf("%s/%s: %d scenarios, %d bad", id, ph.Name, n, bad)
			}
		}
	}
}

// The replay of a scenario is Execute(Decode(file)); the run that found it was
// Execute(generated value). Both must be the same execution: same event log,
// same state key, same counters' worth of steps, same verdict.
func TestDecodedScenarioExecutesAlike(t *testing.T) {
	n := 300
	if s := os.Getenv("VERIF_ROUNDTRIP_EXEC_N"); s != "" {
		n, _ = strconv.Atoi(s)
	}
	for _, id := range core.IDs() {
		p, _ := core.Lookup(id)
		seen := map[string]bool{}
		for _, tier := range []string{"quick", "thorough"} {
			for _, ph := range p.Plan(tier) {
				if seen[ph.Name] || ph.Fresh {
					continue
				}
				seen[ph.Name] = true
				bad := 0
				for seed := uint64(1); seed <= uint64(n); seed++ {
					b, _ := json.Marshal(p.Generate(prng.New(seed), ph.Name))
					sc2, err := p.Decode(b)
					if err != nil {
						t.Fatalf("%s/%s seed %d: %v", id, ph.Name, seed, err)
					}
					l1, l2 := core.NewLog(false), core.NewLog(false)
					r1 := p.Execute(p.Generate(prng.New(seed), ph.Name), ph.Name, l1)
					r2 := p.Execute(sc2, ph.Name, l2)
					if l1.Hash() != l2.Hash() || r1.StateKey != r2.StateKey || r1.Steps != r2.Steps || (r1.Violation == nil) != (r2.Violation == nil) || r1.Skipped != r2.Skipped || r1.Invalid != r2.Invalid {
						if bad++; bad < 4 {
							t.Errorf("%s/%s seed %d: the decoded scenario executes differently from the generated one (log %x/%x, steps %d/%d, state %q/%q)", id, ph.Name, seed, l1.Hash(), l2.Hash(), r1.Steps, r2.Steps, r1.StateKey, r2.StateKey)
						}
					}
				}
				t.Logf("%s/%s: %d scenarios executed both ways, %d differ", id, ph.Name, n, bad)
			}
		}
	}
}
