// Command vsim is both the parent driver and the worker of the simulation
// checks (the parent re-executes this binary, or its -race twin, as workers).
package main

import (
	"encoding/json"
	"flag"
	"fmt"
	"os"
	"path/filepath"
	"runtime"

	"verif/sim/core"

	_ "verif/sim/props"
)

func env() core.Env {
	verif := os.Getenv("VERIF_DIR")
	if verif == "" {
		verif = "/verif"
	}
	self, _ := os.Executable()
	dir := filepath.Dir(self)
	e := core.Env{
		VerifDir:  verif,
		PlainBin:  filepath.Join(dir, "vsim"),
		KnownFile: filepath.Join(verif, "KNOWN_FINDINGS.txt"),
		OutRoot:   filepath.Join(dir, "out"),
	}
	if _, err := os.Stat(filepath.Join(dir, "vsim-race")); err == nil {
		e.RaceBin = filepath.Join(dir, "vsim-race")
	}
	os.MkdirAll(e.OutRoot, 0o755)
	return e
}

func main() {
	if len(os.Args) < 2 {
		fmt.Fprintln(os.Stderr, "usage: vsim check|replay|selftest|worker|exec ...")
		os.Exit(2)
	}
	switch os.Args[1] {
	case "worker":
		fs := flag.NewFlagSet("worker", flag.ExitOnError)
		var a core.WorkerArgs
		var knownFile string
		fs.StringVar(&a.Prop, "prop", "", "")
		fs.StringVar(&a.Phase, "phase", "", "")
		fs.Uint64Var(&a.Seed, "seed", 1, "")
		fs.IntVar(&a.K, "k", 0, "")
		fs.IntVar(&a.N, "n", 1, "")
		fs.IntVar(&a.Runs, "runs", 0, "")
		fs.Int64Var(&a.Deadline, "deadline", 0, "")
		fs.StringVar(&a.OutDir, "out", "", "")
		fs.StringVar(&knownFile, "known", "", "")
		fs.BoolVar(&a.Hashes, "hashes", false, "")
		fs.BoolVar(&a.Fresh, "fresh", false, "")
		fs.Parse(os.Args[2:])
		a.Known, _ = core.LoadKnown(knownFile)
		os.Exit(core.RunWorker(a))
	case "exec":
		fs := flag.NewFlagSet("exec", flag.ExitOnError)
		prop := fs.String("prop", "", "")
		phase := fs.String("phase", "", "")
		file := fs.String("file", "", "")
		verbose := fs.Bool("v", false, "")
		stats := fs.Bool("stats", false, "print a STATS line for the parent worker")
		prelude := fs.String("prelude", "", "JSON array of scenarios to execute first in this process")
		repeat := fs.Int("repeat", 1, "execute the scenario up to this many times, until it shows a violation (intermittent violations)")
		fs.Parse(os.Args[2:])
		p, ok := core.Lookup(*prop)
		if !ok {
			fmt.Fprintln(os.Stderr, "unknown property", *prop)
			os.Exit(2)
		}
		raw, err := os.ReadFile(*file)
		if err != nil {
			fmt.Fprintln(os.Stderr, err)
			os.Exit(2)
		}
		sc, err := p.Decode(raw)
		if err != nil {
			fmt.Fprintln(os.Stderr, "scenario does not decode:", err)
			os.Exit(2)
		}
		runtime.GC() // see core.RunWorker
		core.StartWatchdog("", core.HangCPULimit(core.ExecHangCPU))
		core.WatchdogArm(raw)
		if *prelude != "" {
			pb, err := os.ReadFile(*prelude)
			if err != nil {
				fmt.Fprintln(os.Stderr, err)
				os.Exit(2)
			}
			var pre []json.RawMessage
			if err := json.Unmarshal(pb, &pre); err != nil {
				fmt.Fprintln(os.Stderr, "prelude does not decode:", err)
				os.Exit(2)
			}
			for i, praw := range pre {
				psc, err := p.Decode(praw)
				if err != nil {
					fmt.Fprintf(os.Stderr, "prelude scenario %d does not decode: %v\n", i, err)
					os.Exit(2)
				}
				_, _ = core.SafeExecute(p, psc, *phase, core.NewLog(false))
			}
			if *verbose {
				fmt.Printf("  | (executed %d prelude scenarios in this process)\n", len(pre))
			}
		}
		log := core.NewLog(*verbose)
		res, err := core.SafeExecute(p, sc, *phase, log)
		for i := 1; i < *repeat && err == nil && res.Violation == nil; i++ {
			core.WatchdogArm(raw) // every execution has the CPU budget of its own
			log = core.NewLog(*verbose)
			res, err = core.SafeExecute(p, sc, *phase, log)
		}
		if err != nil {
			fmt.Fprintln(os.Stderr, err)
			os.Exit(2)
		}
		if *verbose {
			for _, l := range log.Lines {
				fmt.Println("  |", l)
			}
			fmt.Printf("  event-log hash %016x, %d events\n", log.Hash(), log.N)
		}
		if *stats {
			b, _ := json.Marshal(core.FreshStats{Nontrivial: res.Nontrivial, Skipped: res.Skipped, Invalid: res.Invalid, Steps: res.Steps, StateKey: res.StateKey, Counters: res.Counters, LogHash: log.Hash(), LogN: log.N})
			fmt.Printf("STATS %s\n", b)
		}
		if res.Violation != nil {
			b, _ := json.Marshal(res.Violation)
			fmt.Printf("RESULT %s\n", b)
			os.Exit(3)
		}
		os.Exit(0)
	case "check":
		if len(os.Args) < 4 {
			fmt.Fprintln(os.Stderr, "usage: vsim check <id> quick|thorough")
			os.Exit(2)
		}
		os.Exit(core.Check(env(), os.Args[2], os.Args[3]))
	case "replay":
		if len(os.Args) < 4 {
			fmt.Fprintln(os.Stderr, "usage: vsim replay <id> <file>")
			os.Exit(2)
		}
		os.Exit(core.ReplayFile(env(), os.Args[2], os.Args[3]))
	case "selftest":
		fs := flag.NewFlagSet("selftest", flag.ExitOnError)
		runs := fs.Int("runs", 64, "")
		dump := fs.String("dump", "", "write the reference (index, scenario hash, log hash, verdict) lines to this file")
		fs.Parse(os.Args[2:])
		os.Exit(core.SelfTest(env(), fs.Args(), *runs, *dump))
	default:
		fmt.Fprintln(os.Stderr, "unknown command", os.Args[1])
		os.Exit(2)
	}
}
